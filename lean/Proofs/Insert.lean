import Model.Insert
import Proofs.VecWriter
open Model Model.VecWriter Model.Insert

namespace Model.Insert

/-- caller memory holds the bodies of `ms` in slots `i, i+1, …` -/
def Agrees (mem : Mem) : Nat → List ColMem → Prop
  | _, [] => True
  | i, m :: ms => mem i = m.body ∧ Agrees mem (i + 1) ms

theorem run_nil (s : Spec) : s.run [] = s := rfl
theorem run_cons (s : Spec) (op : Op) (ops : List Op) : s.run (op :: ops) = (s.step op).run ops := rfl
theorem run_append (s : Spec) (a b : List Op) : s.run (a ++ b) = (s.run a).run b := by
  simp [Spec.run, List.foldl_append]

theorem specOut_append (mem : Mem) (a b : List Item) : specOut mem (a ++ b) = specOut mem a ++ specOut mem b := by
  simp [specOut]

theorem received_snoc (outs : List (Bytes × Bool)) (x : Bytes) (b : Bool) :
    received (outs ++ [(x, b)]) = received outs ++ x := by
  simp [received]

theorem run_colOps : ∀ (ms : List ColMem) (i : Nat) (s : Spec), Agrees s.mem i ms →
    ∃ its, s.run (colOps i ms) = { pending := s.pending ++ its, mem := s.mem, outs := s.outs } ∧
      specOut s.mem its = colsBytes ms := by
  intro ms
  induction ms with
  | nil => intro i s _; exact ⟨[], by simp [colOps, run_nil], rfl⟩
  | cons m ms ih =>
    intro i s h
    obtain ⟨h1, h2⟩ := h
    by_cases hz : m.zeroCopy = true
    · obtain ⟨its, hr, ho⟩ := ih (i + 1) ((s.step (.app m.staged)).step (.chain i)) (by simpa [Spec.step] using h2)
      refine ⟨[.bytes m.staged, .slot i] ++ its, ?_, ?_⟩
      · simp only [colOps, hz, ↓reduceIte, List.cons_append, List.nil_append, run_cons]
        rw [hr]; simp [Spec.step]
      · simp only [Spec.step] at ho
        rw [specOut_append, ho]
        simp [specOut, Item.resolve, colsBytes, h1]
    · obtain ⟨its, hr, ho⟩ := ih (i + 1) (s.step (.app (m.staged ++ m.body))) (by simpa [Spec.step] using h2)
      refine ⟨[.bytes (m.staged ++ m.body)] ++ its, ?_, ?_⟩
      · simp only [colOps, hz, Bool.false_eq_true, ↓reduceIte, List.cons_append, List.nil_append, run_cons]
        rw [hr]; simp [Spec.step]
      · simp only [Spec.step] at ho
        rw [specOut_append, ho]
        simp [specOut, Item.resolve, colsBytes]

theorem run_mutOps : ∀ (ms : List ColMem) (i : Nat) (s : Spec),
    (s.run (mutOps i ms)).pending = s.pending ∧ (s.run (mutOps i ms)).outs = s.outs ∧
      Agrees (s.run (mutOps i ms)).mem i ms ∧ ∀ j, j < i → (s.run (mutOps i ms)).mem j = s.mem j := by
  intro ms
  induction ms with
  | nil => intro i s; simp [mutOps, run_nil, Agrees]
  | cons m ms ih =>
    intro i s
    obtain ⟨h1, h2, h3, h4⟩ := ih (i + 1) (s.step (.mutate i m.body))
    simp only [mutOps, run_cons]
    refine ⟨by rw [h1]; rfl, by rw [h2]; rfl, ⟨?_, h3⟩, ?_⟩
    · rw [h4 i (by omega)]; simp [Spec.step]
    · intro j hj
      rw [h4 j (by omega)]
      have : j ≠ i := by omega
      simp [Spec.step, this]

/-- encoding a block onto an empty pending list and flushing delivers exactly that block -/
theorem run_block_flush (c : Contents) (s : Spec) (hp : s.pending = []) (h : Agrees s.mem 0 c.cols) :
    s.run (blockOps c ++ [.flush .acceptAll]) =
      { pending := [], mem := s.mem, outs := s.outs ++ [(blockBytes c, false)] } := by
  obtain ⟨its, hr, ho⟩ := run_colOps c.cols 0 (s.step (.app c.pre)) (by simpa [Spec.step] using h)
  simp only [blockOps, List.cons_append, run_cons, run_append, hr, run_nil]
  simp only [Spec.step, hp, List.nil_append] at ho ⊢
  rw [specOut_append, ho]
  simp [sinkTake, blockBytes, specOut, Item.resolve]

/-- a block left pending (the last one: it is flushed together with the terminator) -/
theorem run_block_pending (c : Contents) (s : Spec) (hp : s.pending = []) (h : Agrees s.mem 0 c.cols) :
    ∃ its, s.run (blockOps c) = { pending := its, mem := s.mem, outs := s.outs } ∧
      specOut s.mem its = blockBytes c := by
  obtain ⟨its, hr, ho⟩ := run_colOps c.cols 0 (s.step (.app c.pre)) (by simpa [Spec.step] using h)
  refine ⟨[.bytes c.pre] ++ its, ?_, ?_⟩
  · simp only [blockOps, run_cons, hr]
    simp [Spec.step, hp]
  · simp only [Spec.step] at ho
    rw [specOut_append, ho]
    simp [specOut, Item.resolve, blockBytes]

/-- encode, flush, then the callback: the block is out, nothing is pending, memory holds the new contents -/
theorem run_head (c : Contents) (next : List ColMem) (s : Spec) (hp : s.pending = []) (h : Agrees s.mem 0 c.cols) :
    ((s.run (blockOps c ++ [.flush .acceptAll])).run (mutOps 0 next)).pending = [] ∧
    ((s.run (blockOps c ++ [.flush .acceptAll])).run (mutOps 0 next)).outs = s.outs ++ [(blockBytes c, false)] ∧
    Agrees ((s.run (blockOps c ++ [.flush .acceptAll])).run (mutOps 0 next)).mem 0 next := by
  obtain ⟨h1, h2, h3, _⟩ := run_mutOps next 0 (s.run (blockOps c ++ [.flush .acceptAll]))
  refine ⟨?_, ?_, h3⟩
  · rw [h1, run_block_flush c s hp h]
  · rw [h2, run_block_flush c s hp h]

theorem loop_nil (c : Contents) (r : Round) (rs : List Round) (h : r.ret = .nil) :
    loop true c (r :: rs) = ((blockOps c ++ [.flush .acceptAll]) ++ (mutOps 0 r.next.cols ++ (loop true r.next rs).1),
      (loop true r.next rs).2) := by
  simp [loop, h, List.append_assoc]

theorem loop_eof_rows (c : Contents) (r : Round) (rs : List Round) (h : r.ret = .eof) (hr : r.next.rows > 0) :
    loop true c (r :: rs) = ((blockOps c ++ [.flush .acceptAll]) ++ (mutOps 0 r.next.cols ++ blockOps r.next), true) := by
  simp [loop, h, hr, List.append_assoc]

theorem loop_eof_empty (c : Contents) (r : Round) (rs : List Round) (h : r.ret = .eof) (hr : ¬ r.next.rows > 0) :
    loop true c (r :: rs) = ((blockOps c ++ [.flush .acceptAll]) ++ mutOps 0 r.next.cols, true) := by
  simp [loop, h, hr, List.append_assoc]

theorem loop_err (c : Contents) (r : Round) (rs : List Round) (h : r.ret = .err) :
    loop true c (r :: rs) = ((blockOps c ++ [.flush .acceptAll]) ++ mutOps 0 r.next.cols, false) := by
  simp [loop, h, List.append_assoc]

/-- invariant of the loop: what was delivered plus what is pending is the snapshots so far -/
theorem loop_spec : ∀ (rs : List Round) (c : Contents) (s : Spec), s.pending = [] → Agrees s.mem 0 c.cols →
    received (s.run (loop true c rs).1).outs ++ specOut (s.run (loop true c rs).1).mem (s.run (loop true c rs).1).pending =
      received s.outs ++ blocksBytes (snapsFrom c rs).1 ∧ (loop true c rs).2 = (snapsFrom c rs).2 ∧
      ((loop true c rs).2 = false → (s.run (loop true c rs).1).pending = []) := by
  intro rs
  induction rs with
  | nil =>
    intro c s hp h
    obtain ⟨its, hr, ho⟩ := run_block_pending c s hp h
    simp [loop, snapsFrom, hr, ho, blocksBytes]
  | cons r rs ih =>
    intro c s hp h
    obtain ⟨hp1, ho1, ha1⟩ := run_head c r.next.cols s hp h
    cases hret : r.ret with
    | nil =>
      rw [loop_nil c r rs hret]
      simp only [snapsFrom, hret]
      have := ih r.next _ hp1 ha1
      rw [run_append, run_append, this.1, ho1, received_snoc]
      refine ⟨by simp [blocksBytes, List.append_assoc], this.2.1, this.2.2⟩
    | eof =>
      by_cases hrows : r.next.rows > 0
      · rw [loop_eof_rows c r rs hret hrows]
        simp only [snapsFrom, hret, hrows, ↓reduceIte]
        obtain ⟨its, hr, ho⟩ := run_block_pending r.next _ hp1 ha1
        rw [run_append, run_append, hr]
        simp only [ho1, received_snoc, ho]
        simp [blocksBytes, List.append_assoc]
      · rw [loop_eof_empty c r rs hret hrows]
        simp only [snapsFrom, hret, hrows, ↓reduceIte]
        rw [run_append, ho1, hp1, received_snoc]
        simp [blocksBytes, specOut]
    | err =>
      rw [loop_err c r rs hret]
      simp only [snapsFrom, hret]
      rw [run_append, ho1, hp1, received_snoc]
      simp [blocksBytes, specOut]

/-- the terminator and the final flush of `Do` -/
theorem run_finish (s : Spec) (blank : Bytes) :
    received (s.run [.app blank, .flush .acceptAll]).outs = received s.outs ++ specOut s.mem s.pending ++ blank ∧
      (s.run [.app blank, .flush .acceptAll]).pending = [] := by
  simp [run_cons, run_nil, Spec.step, sinkTake, received_snoc, specOut_append, specOut, Item.resolve]

theorem body_spec (c0 : Contents) (rounds : List Round) (s : Spec)
    (hp : s.pending = []) (h : Agrees s.mem 0 c0.cols) :
    received (s.run (body true c0 rounds).1).outs ++
        specOut (s.run (body true c0 rounds).1).mem (s.run (body true c0 rounds).1).pending =
      received s.outs ++ blocksBytes (snapshots c0 rounds).1 ∧
    (body true c0 rounds).2 = (snapshots c0 rounds).2 ∧
    ((body true c0 rounds).2 = false → (s.run (body true c0 rounds).1).pending = []) := by
  cases rounds with
  | nil => simpa [body, snapshots] using loop_spec [] c0 s hp h
  | cons r rs =>
    by_cases h0 : c0.rows = 0
    · obtain ⟨m1, m2, m3, _⟩ := run_mutOps r.next.cols 0 s
      cases hret : r.ret with
      | nil =>
        obtain ⟨e1, e2, e3⟩ := loop_spec rs r.next (s.run (mutOps 0 r.next.cols)) (by rw [m1, hp]) m3
        simp only [body, snapshots, h0, hret, ↓reduceIte]
        rw [run_append]
        exact ⟨by rw [e1, m2], e2, e3⟩
      | eof =>
        by_cases hrows : r.next.rows > 0
        · simp only [body, snapshots, h0, hret, hrows, ↓reduceIte]
          obtain ⟨its, hr, hoo⟩ := run_block_pending r.next (s.run (mutOps 0 r.next.cols)) (by rw [m1, hp]) m3
          rw [run_append, hr]
          simp [hoo, m2, blocksBytes]
        · simp only [body, snapshots, h0, hret, hrows, ↓reduceIte]
          rw [m1, m2, hp]
          simp [blocksBytes, specOut]
      | err =>
        simp only [body, snapshots, h0, hret, ↓reduceIte]
        rw [m1, m2, hp]
        simp [blocksBytes, specOut]
    · simpa [body, snapshots, h0] using loop_spec (r :: rs) c0 s hp h

/-- **Every block holds the contents of its own round; then exactly one terminator; a failing
callback stops the stream** — as delivered to the sink over all flushes. -/
theorem sendInput_spec (c0 : Contents) (rounds : List Round) (blank : Bytes) (s : Spec)
    (hp : s.pending = []) (ho : s.outs = []) (h : Agrees s.mem 0 c0.cols) :
    received (s.run (sendInput true c0 rounds blank)).outs = expected c0 rounds blank ∧
      (s.run (sendInput true c0 rounds blank)).pending = [] := by
  have hrec : received s.outs = [] := by simp [ho, received]
  obtain ⟨e1, e2, e3⟩ := body_spec c0 rounds s hp h
  unfold sendInput finishOps expected
  rw [← e2]
  cases hok : (body true c0 rounds).2 with
  | true =>
    simp only [↓reduceIte]
    rw [run_append]
    obtain ⟨f1, f2⟩ := run_finish (s.run (body true c0 rounds).1) blank
    rw [f1, f2, e1, hrec]
    simp
  | false =>
    simp only [Bool.false_eq_true, ↓reduceIte, List.append_nil]
    have hpe := e3 hok
    rw [hpe] at e1
    simp only [specOut, List.map_nil, List.flatten_nil, List.append_nil] at e1
    rw [e1, hrec, hpe]
    simp

end Model.Insert
