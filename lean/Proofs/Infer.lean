import Model.Infer
/-
Helper lemmas for C19 (inference): `Base`/`Elem` of a type string of the form `Name(body)`,
independence of `Conflicts` from the recursion budget, classification lemmas.
-/
namespace Proofs.Infer
open Model Model.TypeStr Model.Infer

theorem indexByte_append_cons (c : UInt8) (n rest : Bytes) (h : c ∉ n) :
    indexByte c (n ++ c :: rest) = some n.length := by
  induction n with
  | nil => simp [indexByte]
  | cons a n ih =>
    have ha : a ≠ c := fun e => h (by simp [e])
    have hn : c ∉ n := fun e => h (by simp [e])
    simp [indexByte, ha, ih hn]

theorem lastIndexByte_snoc (c : UInt8) (s : Bytes) : lastIndexByte c (s ++ [c]) = some s.length := by
  simp [lastIndexByte, indexByte]

theorem indexByte_none (c : UInt8) (s : Bytes) (h : c ∉ s) : indexByte c s = none := by
  induction s with
  | nil => rfl
  | cons a s ih =>
    have ha : a ≠ c := fun e => h (by simp [e])
    have hn : c ∉ s := fun e => h (by simp [e])
    simp [indexByte, ha, ih hn]

theorem wrap_eq (n body : Bytes) : wrap n body = n ++ lparen :: (body ++ [rparen]) := by
  simp [wrap]

theorem parens_wrap (n body : Bytes) (h : lparen ∉ n) (h0 : n ≠ []) :
    parens (wrap n body) = some (n.length, n.length + 1 + body.length) := by
  have h1 : indexByte lparen (wrap n body) = some n.length := by
    rw [wrap_eq]; exact indexByte_append_cons _ _ _ h
  have h2 : lastIndexByte rparen (wrap n body) = some (n.length + 1 + body.length) := by
    have : wrap n body = (n ++ [lparen] ++ body) ++ [rparen] := by simp [wrap]
    rw [this, lastIndexByte_snoc]; simp; omega
  have hl : n.length ≠ 0 := by
    intro e; exact h0 (List.length_eq_zero_iff.mp e)
  unfold parens
  rw [h1, h2]
  simp only
  split
  · rename_i hc
    rcases hc with hc | hc | hc <;> omega
  · rfl

theorem base_wrap (n body : Bytes) (h : lparen ∉ n) (h0 : n ≠ []) : base (wrap n body) = n := by
  unfold base
  rw [parens_wrap n body h h0]
  simp [wrap]

theorem elem_wrap (n body : Bytes) (h : lparen ∉ n) (h0 : n ≠ []) : elem (wrap n body) = body := by
  unfold elem
  rw [parens_wrap n body h h0]
  simp [wrap]

theorem base_of_no_lparen (s : Bytes) (h : lparen ∉ s) : base s = s := by
  unfold base parens
  rw [indexByte_none _ _ h]

/-- `Elem` is strictly shorter than a non-empty string -/
theorem elem_length_lt (c : Bytes) (h : c ≠ []) : (elem c).length < c.length := by
  unfold elem
  split
  · rename_i s e hp
    simp only [List.length_take, List.length_drop]
    have : 0 < c.length := List.length_pos_iff.mpr h
    omega
  · simp; exact List.length_pos_iff.mpr h

theorem wrapper_nonempty (c : Bytes) (h : isWrapperBase (base c) = true) : c ≠ [] := by
  intro e; subst e
  revert h; decide

/-- the recursion budget of `conflictsF` is immaterial once it exceeds the length of the first string -/
theorem conflictsF_fuel (x : Ext) : ∀ (f1 f2 : Nat) (c b : Bytes), c.length < f1 → c.length < f2 →
    conflictsF x f1 c b = conflictsF x f2 c b := by
  intro f1
  induction f1 with
  | zero => intro f2 c b h; omega
  | succ n ih =>
    intro f2 c b h1 h2
    cases f2 with
    | zero => omega
    | succ m =>
      simp only [conflictsF]
      by_cases hw : isWrapperBase (base c) = true
      · have hne := wrapper_nonempty c hw
        have hlt := elem_length_lt c hne
        rw [ih m (elem c) (elem b) (by omega) (by omega)]
      · simp only [hw]
        simp

theorem conflicts_eq_fuel (x : Ext) (c b : Bytes) (f : Nat) (h : c.length < f) :
    conflicts x c b = conflictsF x f c b := by
  unfold conflicts
  exact conflictsF_fuel x _ _ c b (by omega) h

theorem enumExc_false (c b : Bytes) (hc : isEnumBase (base c) = false) (hb : isEnumBase (base b) = false) :
    enumExc c b = false := by
  unfold isEnumBase at hc hb
  unfold enumExc
  simp only [Bool.or_eq_false_iff] at hc hb
  simp [hc.1, hc.2, hb.1, hb.2]

end Proofs.Infer
