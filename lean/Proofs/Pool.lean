import Model.Pool
open Model Model.Pool

namespace Model.Pool

structure Inv (cfg : Cfg) (s : St) : Prop where
  /-- a handle points at a live resource that is held -/
  ptr : ∀ p ∈ s.handles, ∃ r ∈ s.live, r.id = p.2 ∧ r.held = true
  /-- two handles never share a resource -/
  single : ∀ p ∈ s.handles, ∀ q ∈ s.handles, p.2 = q.2 → p = q
  keys : ∀ p ∈ s.handles, ∀ q ∈ s.handles, p.1 = q.1 → p = q
  bound : s.live.length ≤ cfg.max
  ids : ∀ r ∈ s.live, ∀ r' ∈ s.live, r.id = r'.id → r = r'
  fresh : ∀ r ∈ s.live, r.id < s.nextId
  dead : ∀ d ∈ s.destroyed, d < s.nextId ∧ ∀ r ∈ s.live, r.id ≠ d
  ok : s.corrupt = false
  /-- a held resource belongs to some handle -/
  owned : ∀ r ∈ s.live, r.held = true → ∃ p ∈ s.handles, p.2 = r.id

theorem inv_init (cfg : Cfg) : Inv cfg {} :=
  ⟨by simp, by simp, by simp, by simp, by simp, by simp, by simp, rfl, by simp⟩

theorem mem_upd {l : List Res} {id : Nat} {f : Res → Res} {y : Res} :
    y ∈ upd l id f ↔ ∃ x ∈ l, y = if x.id = id then f x else x := by
  simp [upd, eq_comm]

theorem upd_length (l : List Res) (id : Nat) (f : Res → Res) : (upd l id f).length = l.length := by
  simp [upd]

theorem lookup_some {hs : List (Nat × Nat)} {h id : Nat} (hl : lookup hs h = some id) : (h, id) ∈ hs := by
  unfold lookup at hl
  cases hf : hs.find? (·.1 == h) with
  | none => simp [hf] at hl
  | some p =>
    simp [hf] at hl
    have hm := List.mem_of_find?_eq_some hf
    have hp := List.find?_some hf
    simp at hp
    obtain ⟨a, b⟩ := p
    simp at hl hp
    subst hl; subst hp
    exact hm

theorem lookup_none {hs : List (Nat × Nat)} {h : Nat} (hl : lookup hs h = none) : ∀ p ∈ hs, p.1 ≠ h := by
  unfold lookup at hl
  intro p hp he
  cases hf : hs.find? (·.1 == h) with
  | none =>
    have := List.find?_eq_none.mp hf p hp
    simp [he] at this
  | some q => simp [hf] at hl

theorem mem_erase {hs : List (Nat × Nat)} {h : Nat} {p : Nat × Nat} : p ∈ erase hs h ↔ p ∈ hs ∧ p.1 ≠ h := by
  simp [erase]

theorem mem_idle {s : St} {r : Res} : r ∈ idle s ↔ r ∈ s.live ∧ r.held = false := by
  simp [idle]


/-- an id-preserving, held-preserving update of one resource keeps the invariant -/
theorem inv_upd_same (cfg : Cfg) (s : St) (id : Nat) (f : Res → Res)
    (hid : ∀ r, (f r).id = r.id) (hheld : ∀ r, (f r).held = r.held) (h : Inv cfg s) :
    Inv cfg { s with live := upd s.live id f } := by
  obtain ⟨h1, h2, h3, h4, h5, h6, h7, h8, h9⟩ := h
  have key : ∀ y ∈ upd s.live id f, ∃ x ∈ s.live, y.id = x.id ∧ y.held = x.held ∧ (y = if x.id = id then f x else x) := by
    intro y hy
    obtain ⟨x, hx, rfl⟩ := mem_upd.mp hy
    refine ⟨x, hx, ?_, ?_, rfl⟩ <;> split <;> simp [hid, hheld]
  refine ⟨?_, h2, h3, by simpa [upd_length] using h4, ?_, ?_, ?_, h8, ?_⟩
  · intro p hp
    obtain ⟨r, hr, e1, e2⟩ := h1 p hp
    refine ⟨if r.id = id then f r else r, mem_upd.mpr ⟨r, hr, rfl⟩, ?_, ?_⟩ <;> split <;> simp [hid, hheld, e1, e2]
  · intro a ha b hb hab
    obtain ⟨x, hx, ex, _, rfl⟩ := key a ha
    obtain ⟨y, hy, ey, _, rfl⟩ := key b hb
    have : x = y := h5 x hx y hy (by rw [← ex, ← ey]; exact hab)
    subst this; rfl
  · intro a ha
    obtain ⟨x, hx, ex, _, _⟩ := key a ha
    rw [ex]; exact h6 x hx
  · intro d hd
    refine ⟨(h7 d hd).1, ?_⟩
    intro a ha
    obtain ⟨x, hx, ex, _, _⟩ := key a ha
    rw [ex]; exact (h7 d hd).2 x hx
  · intro a ha hh
    obtain ⟨x, hx, ex, eh, _⟩ := key a ha
    obtain ⟨p, hp, e⟩ := h9 x hx (by rw [← eh]; exact hh)
    exact ⟨p, hp, by rw [e, ex]⟩

theorem inv_advance (cfg : Cfg) (s : St) (dt : Nat) (h : Inv cfg s) : Inv cfg (step cfg s (.advance dt)) := by
  obtain ⟨h1, h2, h3, h4, h5, h6, h7, h8, h9⟩ := h
  exact ⟨h1, h2, h3, h4, h5, h6, h7, h8, h9⟩

theorem inv_fail (cfg : Cfg) (s : St) (hd : Nat) (h : Inv cfg s) : Inv cfg (step cfg s (.fail hd)) := by
  simp only [step]
  split
  · exact h
  · exact inv_upd_same cfg s _ setClosed (fun _ => rfl) (fun _ => rfl) h


theorem key_upd {l : List Res} {id : Nat} {f : Res → Res} (hid : ∀ r, (f r).id = r.id) :
    ∀ y ∈ upd l id f, ∃ x ∈ l, y.id = x.id ∧ (y = if x.id = id then f x else x) := by
  intro y hy
  obtain ⟨x, hx, rfl⟩ := mem_upd.mp hy
  refine ⟨x, hx, ?_, rfl⟩
  split <;> simp [hid]

theorem getElem?_mem_idle {s : St} {k : Nat} {r : Res} (h : (idle s)[k]? = some r) : r ∈ s.live ∧ r.held = false :=
  mem_idle.mp (List.mem_of_getElem? h)

theorem inv_acquire (cfg : Cfg) (s : St) (hd pick : Nat) (h : Inv cfg s) : Inv cfg (step cfg s (.acquire hd pick)) := by
  simp only [step]
  split
  · exact h
  · split
    · exact h
    · rename_i hnone
      have hfree : ∀ p ∈ s.handles, p.1 ≠ hd := by
        apply lookup_none
        cases hl : lookup s.handles hd with
        | none => rfl
        | some v => simp [hl] at hnone
      obtain ⟨h1, h2, h3, h4, h5, h6, h7, h8, h9⟩ := h
      split
      · -- an idle resource
        rename_i r hget
        obtain ⟨hrl, hrh⟩ := getElem?_mem_idle hget
        have hkey := key_upd (l := s.live) (id := r.id) (f := setHeld) (fun _ => rfl)
        have noOld : ∀ q ∈ s.handles, q.2 ≠ r.id := by
          intro q hq he
          obtain ⟨x, hx, e1, e2⟩ := h1 q hq
          have : x = r := h5 x hx r hrl (by rw [e1, he])
          subst this
          rw [hrh] at e2; cases e2
        refine ⟨?_, ?_, ?_, by simpa [upd_length] using h4, ?_, ?_, ?_, h8, ?_⟩
        · intro p hp
          rcases List.mem_cons.mp hp with rfl | hp
          · exact ⟨setHeld r, mem_upd.mpr ⟨r, hrl, by simp⟩, rfl, rfl⟩
          · obtain ⟨x, hx, e1, e2⟩ := h1 p hp
            refine ⟨if x.id = r.id then setHeld x else x, mem_upd.mpr ⟨x, hx, rfl⟩, ?_, ?_⟩ <;>
              split <;> simp [setHeld, e1, e2]
        · intro p hp q hq hpq
          rcases List.mem_cons.mp hp with rfl | hp <;> rcases List.mem_cons.mp hq with rfl | hq
          · rfl
          · exact absurd hpq.symm (noOld q hq)
          · exact absurd hpq (noOld p hp)
          · exact h2 p hp q hq hpq
        · intro p hp q hq hpq
          rcases List.mem_cons.mp hp with rfl | hp <;> rcases List.mem_cons.mp hq with rfl | hq
          · rfl
          · exact absurd hpq.symm (hfree q hq)
          · exact absurd hpq (hfree p hp)
          · exact h3 p hp q hq hpq
        · intro a ha b hb hab
          obtain ⟨x, hx, ex, rfl⟩ := hkey a ha
          obtain ⟨y, hy, ey, rfl⟩ := hkey b hb
          have : x = y := h5 x hx y hy (by rw [← ex, ← ey]; exact hab)
          subst this; rfl
        · intro a ha
          obtain ⟨x, hx, ex, _⟩ := hkey a ha
          rw [ex]; exact h6 x hx
        · intro d hdd
          refine ⟨(h7 d hdd).1, ?_⟩
          intro a ha
          obtain ⟨x, hx, ex, _⟩ := hkey a ha
          rw [ex]; exact (h7 d hdd).2 x hx
        · intro a ha hh
          obtain ⟨x, hx, ex, rfl⟩ := hkey a ha
          by_cases hx2 : x.id = r.id
          · exact ⟨(hd, r.id), by simp, by simp [hx2, setHeld]⟩
          · simp only [hx2, ↓reduceIte] at hh ⊢
            obtain ⟨p, hp, e⟩ := h9 x hx hh
            exact ⟨p, List.mem_cons_of_mem _ hp, e⟩
      · split
        · -- a new resource
          rename_i hlt
          have noOld : ∀ q ∈ s.handles, q.2 ≠ s.nextId := by
            intro q hq he
            obtain ⟨x, hx, e1, _⟩ := h1 q hq
            have := h6 x hx
            omega
          refine ⟨?_, ?_, ?_, by simp; omega, ?_, ?_, ?_, h8, ?_⟩
          · intro p hp
            rcases List.mem_cons.mp hp with rfl | hp
            · exact ⟨fresh s, by simp, rfl, rfl⟩
            · obtain ⟨x, hx, e1, e2⟩ := h1 p hp
              exact ⟨x, List.mem_cons_of_mem _ hx, e1, e2⟩
          · intro p hp q hq hpq
            rcases List.mem_cons.mp hp with rfl | hp <;> rcases List.mem_cons.mp hq with rfl | hq
            · rfl
            · exact absurd hpq.symm (noOld q hq)
            · exact absurd hpq (noOld p hp)
            · exact h2 p hp q hq hpq
          · intro p hp q hq hpq
            rcases List.mem_cons.mp hp with rfl | hp <;> rcases List.mem_cons.mp hq with rfl | hq
            · rfl
            · exact absurd hpq.symm (hfree q hq)
            · exact absurd hpq (hfree p hp)
            · exact h3 p hp q hq hpq
          · intro a ha b hb hab
            rcases List.mem_cons.mp ha with rfl | ha <;> rcases List.mem_cons.mp hb with rfl | hb
            · rfl
            · have := h6 b hb; simp [fresh] at hab; omega
            · have := h6 a ha; simp [fresh] at hab; omega
            · exact h5 a ha b hb hab
          · intro a ha
            rcases List.mem_cons.mp ha with rfl | ha
            · simp [fresh]
            · have := h6 a ha; simp; omega
          · intro d hdd
            refine ⟨by have := (h7 d hdd).1; simp; omega, ?_⟩
            intro a ha
            rcases List.mem_cons.mp ha with rfl | ha
            · have := (h7 d hdd).1; simp [fresh]; omega
            · exact (h7 d hdd).2 a ha
          · intro a ha hh
            rcases List.mem_cons.mp ha with rfl | ha
            · exact ⟨(hd, s.nextId), by simp, rfl⟩
            · obtain ⟨p, hp, e⟩ := h9 a ha hh
              exact ⟨p, List.mem_cons_of_mem _ hp, e⟩
        · exact ⟨h1, h2, h3, h4, h5, h6, h7, h8, h9⟩


theorem find_live {s : St} {cfg : Cfg} (h : Inv cfg s) {id : Nat} {r : Res} (hr : r ∈ s.live) (hid : r.id = id) :
    s.live.find? (·.id == id) = some r := by
  cases hf : s.live.find? (·.id == id) with
  | none =>
    have := List.find?_eq_none.mp hf r hr
    simp [hid] at this
  | some r' =>
    have hm := List.mem_of_find?_eq_some hf
    have hp := List.find?_some hf
    simp at hp
    rw [h.ids r' hm r hr (by rw [hp, hid])]

theorem inv_release (cfg : Cfg) (hclr : cfg.clearOnRelease = true) (s : St) (hd : Nat) (h : Inv cfg s) :
    Inv cfg (step cfg s (.release hd)) := by
  simp only [step]
  split
  · exact h
  · rename_i id hl
    have hmem := lookup_some hl
    obtain ⟨r, hr, hrid, hrheld⟩ := h.ptr _ hmem
    simp only at hrid
    rw [find_live h hr hrid]
    simp only [hrheld, Bool.not_true, Bool.false_eq_true, ↓reduceIte, hclr]
    obtain ⟨h1, h2, h3, h4, h5, h6, h7, h8, h9⟩ := h
    -- other handles point elsewhere
    have other : ∀ p ∈ erase s.handles hd, p ∈ s.handles ∧ p.2 ≠ id := by
      intro p hp
      obtain ⟨hp1, hp2⟩ := mem_erase.mp hp
      refine ⟨hp1, fun he => hp2 ?_⟩
      have := h2 p hp1 (hd, id) hmem he
      rw [this]
    split
    · -- destroyed
      refine ⟨?_, ?_, ?_, ?_, ?_, ?_, ?_, h8, ?_⟩
      · intro p hp
        obtain ⟨hp1, hp2⟩ := other p hp
        obtain ⟨x, hx, e1, e2⟩ := h1 p hp1
        exact ⟨x, by simp [destroy, hx, e1, hp2], e1, e2⟩
      · intro p hp q hq; exact h2 p (other p hp).1 q (other q hq).1
      · intro p hp q hq; exact h3 p (other p hp).1 q (other q hq).1
      · exact Nat.le_trans (List.length_filter_le _ _) h4
      · intro a ha b hb
        exact h5 a (List.mem_filter.mp ha).1 b (List.mem_filter.mp hb).1
      · intro a ha; exact h6 a (List.mem_filter.mp ha).1
      · intro d hdd
        simp only [destroy, List.mem_cons] at hdd
        rcases hdd with rfl | hdd
        · refine ⟨by rw [← hrid]; exact h6 r hr, ?_⟩
          intro a ha
          have := (List.mem_filter.mp ha).2
          simpa using this
        · exact ⟨(h7 d hdd).1, fun a ha => (h7 d hdd).2 a (List.mem_filter.mp ha).1⟩
      · intro a ha hh
        obtain ⟨ha1, ha2⟩ := List.mem_filter.mp ha
        obtain ⟨p, hp, e⟩ := h9 a ha1 hh
        refine ⟨p, mem_erase.mpr ⟨hp, fun he => ?_⟩, e⟩
        have := h3 p hp (hd, id) hmem he
        rw [this] at e
        simp at ha2
        exact ha2 e.symm
    · -- back to idle
      have hkey := key_upd (l := s.live) (id := id) (f := setIdle s.now) (fun _ => rfl)
      refine ⟨?_, ?_, ?_, by simpa [upd_length] using h4, ?_, ?_, ?_, h8, ?_⟩
      · intro p hp
        obtain ⟨hp1, hp2⟩ := other p hp
        obtain ⟨x, hx, e1, e2⟩ := h1 p hp1
        refine ⟨x, mem_upd.mpr ⟨x, hx, ?_⟩, e1, e2⟩
        have : x.id ≠ id := by rw [e1]; exact hp2
        simp [this]
      · intro p hp q hq; exact h2 p (other p hp).1 q (other q hq).1
      · intro p hp q hq; exact h3 p (other p hp).1 q (other q hq).1
      · intro a ha b hb hab
        obtain ⟨x, hx, ex, rfl⟩ := hkey a ha
        obtain ⟨y, hy, ey, rfl⟩ := hkey b hb
        have : x = y := h5 x hx y hy (by rw [← ex, ← ey]; exact hab)
        subst this; rfl
      · intro a ha
        obtain ⟨x, hx, ex, _⟩ := hkey a ha
        rw [ex]; exact h6 x hx
      · intro d hdd
        refine ⟨(h7 d hdd).1, ?_⟩
        intro a ha
        obtain ⟨x, hx, ex, _⟩ := hkey a ha
        rw [ex]; exact (h7 d hdd).2 x hx
      · intro a ha hh
        obtain ⟨x, hx, ex, rfl⟩ := hkey a ha
        by_cases hx2 : x.id = id
        · simp [hx2, setIdle] at hh
        · simp only [hx2, ↓reduceIte] at hh ⊢
          obtain ⟨p, hp, e⟩ := h9 x hx hh
          refine ⟨p, mem_erase.mpr ⟨hp, fun he => ?_⟩, e⟩
          have := h3 p hp (hd, id) hmem he
          rw [this] at e
          exact hx2 e.symm


/-- removing resources that are not held (those satisfying `kill`) keeps the invariant -/
theorem inv_reap (cfg : Cfg) (s : St) (kill : Res → Bool) (closed' : Bool) (h : Inv cfg s) :
    Inv cfg { s with live := s.live.filter (fun r => r.held || !kill r),
                     destroyed := ((idle s).filter kill).map (·.id) ++ s.destroyed, closed := closed' } := by
  obtain ⟨h1, h2, h3, h4, h5, h6, h7, h8, h9⟩ := h
  refine ⟨?_, h2, h3, ?_, ?_, ?_, ?_, h8, ?_⟩
  · intro p hp
    obtain ⟨x, hx, e1, e2⟩ := h1 p hp
    exact ⟨x, List.mem_filter.mpr ⟨hx, by simp [e2]⟩, e1, e2⟩
  · exact Nat.le_trans (List.length_filter_le _ _) h4
  · intro a ha b hb; exact h5 a (List.mem_filter.mp ha).1 b (List.mem_filter.mp hb).1
  · intro a ha; exact h6 a (List.mem_filter.mp ha).1
  · intro d hdd
    simp only [List.mem_append, List.mem_map, List.mem_filter] at hdd
    rcases hdd with ⟨r, ⟨hri, hk⟩, rfl⟩ | hdd
    · obtain ⟨hrl, hrh⟩ := mem_idle.mp hri
      refine ⟨h6 r hrl, ?_⟩
      intro a ha he
      obtain ⟨ha1, ha2⟩ := List.mem_filter.mp ha
      have : a = r := h5 a ha1 r hrl he
      subst this
      simp [hrh, hk] at ha2
    · exact ⟨(h7 d hdd).1, fun a ha => (h7 d hdd).2 a (List.mem_filter.mp ha).1⟩
  · intro a ha hh
    exact h9 a (List.mem_filter.mp ha).1 hh

theorem inv_health (cfg : Cfg) (s : St) (h : Inv cfg s) : Inv cfg (step cfg s .health) := by
  simp only [step]
  split
  · exact h
  · have := inv_reap cfg s (isDead cfg s.now) s.closed h
    exact this

theorem inv_close (cfg : Cfg) (s : St) (h : Inv cfg s) : Inv cfg (step cfg s .close) := by
  simp only [step]
  have := inv_reap cfg s (fun _ => true) true h
  have hf : (idle s).filter (fun _ => true) = idle s := by
    induction idle s with
    | nil => rfl
    | cons a l ih => simp [List.filter, ih]
  simpa [hf] using this

theorem inv_step (cfg : Cfg) (hclr : cfg.clearOnRelease = true) (s : St) (op : Op) (h : Inv cfg s) :
    Inv cfg (step cfg s op) := by
  cases op with
  | acquire hd pick => exact inv_acquire cfg s hd pick h
  | release hd => exact inv_release cfg hclr s hd h
  | fail hd => exact inv_fail cfg s hd h
  | advance dt => exact inv_advance cfg s dt h
  | health => exact inv_health cfg s h
  | close => exact inv_close cfg s h

theorem inv_run (cfg : Cfg) (hclr : cfg.clearOnRelease = true) (ops : List Op) : ∀ s, Inv cfg s → Inv cfg (run cfg s ops) := by
  induction ops with
  | nil => intro s h; exact h
  | cons op ops ih => intro s h; exact ih _ (inv_step cfg hclr s op h)

end Model.Pool
