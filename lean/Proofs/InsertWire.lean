import Proofs.Insert
import Proofs.Send
/-
Linking the abstract `sendInput` model (staged bytes / zero-copy bodies) to the concrete blocks of
`Model.Block` and the client stream of `Model.Send` (uncompressed connection: with compression every
block is encoded into the buffer and compressed there, nothing is zero-copy).
-/
open Model Model.Col Model.Msg Model.Block Model.Send Model.Insert Model.VecWriter

namespace Model.Insert

/-- the writer's view of one input block: what is staged (Data code, table name, block header; per
column its header and state prefix) and what is chained by reference (the column body, for the
columns `zc` says are zero-copy) -/
def contentsOf (s : Conn) (zc : BCol → Bool) (b : Blk) : Contents :=
  { pre := [2] ++ (encodeD clientData s.v [.s []] ++ encodeD blockHeader s.v (headerRec (-1) b.cols.length b.rows)),
    cols := b.cols.map fun c =>
      { staged := colHeader s.v c.name c.tyName ++ (if b.rows = 0 then [] else encState c.col []),
        body := if b.rows = 0 then [] else encCol c.col [],
        zeroCopy := zc c },
    rows := b.rows }

theorem colsBytes_contents (s : Conn) (zc : BCol → Bool) (rows : Nat) : ∀ (cols : List BCol),
    Insert.colsBytes (cols.map fun c =>
      ({ staged := colHeader s.v c.name c.tyName ++ (if rows = 0 then [] else encState c.col []),
         body := if rows = 0 then [] else encCol c.col [], zeroCopy := zc c } : ColMem)) =
    Block.colsBytes s.v rows cols := by
  intro cols
  induction cols with
  | nil => rfl
  | cons c cs ih =>
    simp only [List.map_cons, Insert.colsBytes, Block.colsBytes, Block.colBytes, ih]
    by_cases h : rows = 0 <;> simp [h, List.append_assoc]

/-- the bytes of the abstract block are the Data packet of the concrete block -/
theorem blockBytes_contentsOf (s : Conn) (hc : s.compressed = false) (zc : BCol → Bool) (b : Blk) :
    blockBytes (contentsOf s zc b) = dataPacket s [] (b.bytes s.v) := by
  simp only [blockBytes, contentsOf, colsBytes_contents, dataPacket, hc, Bool.false_eq_true, ↓reduceIte,
    Blk.bytes, Block.enc, List.append_assoc]

theorem blocksBytes_map (s : Conn) (hc : s.compressed = false) (zc : BCol → Bool) : ∀ (bs : List Blk),
    blocksBytes (bs.map (contentsOf s zc)) = inputPackets s bs := by
  intro bs
  induction bs with
  | nil => rfl
  | cons b bs ih => simp only [List.map_cons, blocksBytes, inputPackets, ih, blockBytes_contentsOf s hc zc b]

/-- callback history over concrete blocks -/
abbrev BRound := Blk × Ret

def toRound (s : Conn) (zc : BCol → Bool) (r : BRound) : Round := ⟨contentsOf s zc r.1, r.2⟩

/-- the snapshot rule over concrete blocks (same rule as `Insert.snapsFrom` / `snapshots`) -/
def bSnapsFrom : Blk → List BRound → List Blk × Bool
  | c, [] => ([c], true)
  | c, r :: rs =>
    match r.2 with
    | .nil => ((c :: (bSnapsFrom r.1 rs).1), (bSnapsFrom r.1 rs).2)
    | .eof => if r.1.rows > 0 then ([c, r.1], true) else ([c], true)
    | .err => ([c], false)

def bSnapshots (c0 : Blk) (rounds : List BRound) : List Blk × Bool :=
  match rounds with
  | r :: rs =>
    if c0.rows = 0 then
      match r.2 with
      | .nil => bSnapsFrom r.1 rs
      | .eof => if r.1.rows > 0 then ([r.1], true) else ([], true)
      | .err => ([], false)
    else bSnapsFrom c0 rounds
  | [] => bSnapsFrom c0 []

theorem snapsFrom_map (s : Conn) (zc : BCol → Bool) : ∀ (rs : List BRound) (c : Blk),
    snapsFrom (contentsOf s zc c) (rs.map (toRound s zc)) =
      ((bSnapsFrom c rs).1.map (contentsOf s zc), (bSnapsFrom c rs).2) := by
  intro rs
  induction rs with
  | nil => intro c; rfl
  | cons r rs ih =>
    intro c
    obtain ⟨b, ret⟩ := r
    cases ret with
    | nil => simp only [List.map_cons, toRound, snapsFrom, bSnapsFrom, ih b, List.map_cons]
    | eof =>
      simp only [List.map_cons, toRound, snapsFrom, bSnapsFrom]
      have : (contentsOf s zc b).rows = b.rows := rfl
      rw [this]
      split <;> rfl
    | err => rfl

theorem snapshots_map (s : Conn) (zc : BCol → Bool) (c0 : Blk) (rounds : List BRound) :
    snapshots (contentsOf s zc c0) (rounds.map (toRound s zc)) =
      ((bSnapshots c0 rounds).1.map (contentsOf s zc), (bSnapshots c0 rounds).2) := by
  cases rounds with
  | nil => exact snapsFrom_map s zc [] c0
  | cons r rs =>
    obtain ⟨b, ret⟩ := r
    have hrows : (contentsOf s zc c0).rows = c0.rows := rfl
    simp only [List.map_cons, snapshots, bSnapshots, toRound, hrows]
    by_cases h0 : c0.rows = 0
    · simp only [h0, ↓reduceIte]
      cases ret with
      | nil => exact snapsFrom_map s zc rs b
      | eof =>
        have : (contentsOf s zc b).rows = b.rows := rfl
        simp only [this]
        split <;> rfl
      | err => rfl
    · simp only [h0, ↓reduceIte]
      have := snapsFrom_map s zc ((b, ret) :: rs) c0
      simpa [toRound] using this

/-- what the peer must receive, in terms of the client stream of `Model.Send` -/
theorem expected_is_input_part (s : Conn) (hc : s.compressed = false) (zc : BCol → Bool) (c0 : Blk)
    (rounds : List BRound) :
    expected (contentsOf s zc c0) (rounds.map (toRound s zc)) (dataPacket s [] (Block.blank s.v)) =
      inputPackets s (bSnapshots c0 rounds).1 ++
        (if (bSnapshots c0 rounds).2 then dataPacket s [] (Block.blank s.v) else []) := by
  unfold expected
  rw [snapshots_map]
  simp only [blocksBytes_map s hc zc]

end Model.Insert
