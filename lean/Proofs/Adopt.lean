import Model.Adopt
/-
Helper lemmas for the typed-target adoption model (C18): `cutTypes` runs over a string without cut point exactly
like `scan`.
-/
namespace Proofs.Adopt
open Model Model.TypeStr Model.Infer Model.Adopt

theorem cutTypesGo_scan : ∀ (K : Bytes) (d : Int) (q k : Bool) (d' : Int) (q' k' : Bool) (R acc : Bytes),
    scan K d q k = some (d', q', k') →
      cutTypesGo (K ++ R) d q k acc = cutTypesGo R d' q' k' (K.reverse ++ acc) := by
  intro K
  induction K with
  | nil => intro d q k d' q' k' R acc h; simp [scan] at h; obtain ⟨rfl, rfl, rfl⟩ := h; simp
  | cons c rest ih =>
    intro d q k d' q' k' R acc h
    simp only [scan] at h
    simp only [List.cons_append, cutTypesGo]
    split at h
    · rename_i hk; have hi := ih _ _ _ _ _ _ R (c :: acc) h; simp_all
    rename_i hk
    split at h
    · rename_i hb; have hi := ih _ _ _ _ _ _ R (c :: acc) h; simp_all
    rename_i hb
    split at h
    · rename_i hqu; have hi := ih _ _ _ _ _ _ R (c :: acc) h; simp_all
    rename_i hqu
    split at h
    · rename_i hq; have hi := ih _ _ _ _ _ _ R (c :: acc) h; simp_all
    rename_i hq
    split at h
    · rename_i hl; have hi := ih _ _ _ _ _ _ R (c :: acc) h; simp_all
    rename_i hl
    split at h
    · rename_i hr; have hi := ih _ _ _ _ _ _ R (c :: acc) h; simp_all
    rename_i hr
    split at h
    · exact absurd h (by simp)
    rename_i hc
    have hi := ih _ _ _ _ _ _ R (c :: acc) h; simp_all

end Proofs.Adopt
