import Proofs.Msg
import Proofs.ColSafe
/- message decoders never panic and allocate at most one string of the size limit at a time -/
namespace Model
namespace Msg
open Parser Col

def StrAllocOK (lim cap : Option Nat) : Prop := ∀ c, cap = some c → ∃ l, lim = some l ∧ l ≤ c

theorem str_graceful (lim cap : Option Nat) (h : StrAllocOK lim cap) : Graceful (Parser.str lim cap) := by
  unfold Parser.str
  refine Graceful.bind' Graceful.strLen fun n => Graceful.bind (Graceful.guard _ _) fun _ r bs hg => ?_
  obtain ⟨hlim, _⟩ := guard_ok_inv hg
  refine (Graceful.bind' (Graceful.alloc _ _ fun c hc => ?_) fun _ => Graceful.take _) r
  obtain ⟨l, hl, hlc⟩ := h c hc
  rw [hl] at hlim
  simp [Parser.limOK] at hlim
  omega

theorem int_graceful : Graceful Parser.int := by
  intro bs
  unfold Parser.int
  have := Graceful.uvarint bs
  cases h : Parser.uvarint bs with
  | ok ar => rfl
  | err e => rfl
  | panic => rw [h] at this; cases this
  | oom => rw [h] at this; cases this

theorem bool_graceful : Graceful Parser.bool := by
  unfold Parser.bool
  refine Graceful.bind' Graceful.byte fun b => ?_
  split
  · exact Graceful.pure _
  · split
    · exact Graceful.pure _
    · exact Graceful.fail _

theorem kvLoop_graceful (lim cap : Option Nat) (h : StrAllocOK lim cap) (d : Bool) :
    ∀ fuel, Graceful (kvLoop lim cap d fuel)
  | 0 => Graceful.fail _
  | n + 1 => by
    unfold kvLoop
    refine Graceful.bind' (str_graceful lim cap h) fun k => ?_
    split
    · exact Graceful.pure _
    · exact Graceful.bind' Graceful.uvarint fun _ => Graceful.bind' (str_graceful lim cap h) fun _ =>
        Graceful.bind' (kvLoop_graceful lim cap h d n) fun _ => Graceful.pure _

theorem infoLoop_graceful : ∀ fuel o bk, Graceful (infoLoop fuel o bk)
  | 0, _, _ => Graceful.fail _
  | n + 1, o, bk => by
    unfold infoLoop
    refine Graceful.bind' Graceful.uvarint fun f => ?_
    split
    · exact Graceful.bind' bool_graceful fun v => infoLoop_graceful n v bk
    · split
      · exact Graceful.bind' (Graceful.le 4) fun v => infoLoop_graceful n o _
      · split
        · exact Graceful.pure _
        · exact Graceful.fail _

theorem prim_graceful (lim cap : Option Nat) (h : StrAllocOK lim cap) (p : Prim) : Graceful (p.dec lim cap) := by
  cases p <;> simp only [Prim.dec]
  case str => exact Graceful.bind' (str_graceful lim cap h) fun _ => Graceful.pure _
  case uvarint => exact Graceful.bind' Graceful.uvarint fun _ => Graceful.pure _
  case int => exact Graceful.bind' int_graceful fun _ => Graceful.pure _
  case u8 => exact Graceful.bind' Graceful.byte fun _ => Graceful.pure _
  case i32 => exact Graceful.bind' (Graceful.le 4) fun _ => Graceful.pure _
  case i64 => exact Graceful.bind' (Graceful.le 8) fun _ => Graceful.pure _
  case bool => exact Graceful.bind' bool_graceful fun _ => Graceful.pure _
  case enum8 valid only =>
    exact Graceful.bind' Graceful.byte fun _ => Graceful.bind' (Graceful.guard _ _) fun _ =>
      Graceful.bind' (Graceful.guard _ _) fun _ => Graceful.pure _
  case enumV valid =>
    exact Graceful.bind' Graceful.uvarint fun _ => Graceful.bind' (Graceful.guard _ _) fun _ => Graceful.pure _
  case boolInt => exact Graceful.bind' int_graceful fun _ => Graceful.pure _
  case settings =>
    intro bs
    exact (Graceful.bind' (kvLoop_graceful lim cap h false _) fun _ => Graceful.pure _) bs
  case params =>
    intro bs
    exact (Graceful.bind' (kvLoop_graceful lim cap h true _) fun _ => Graceful.pure _) bs
  case otel =>
    refine Graceful.bind' bool_graceful fun has => ?_
    split
    · exact Graceful.bind' (Graceful.take 16) fun _ => Graceful.bind' (Graceful.take 8) fun _ =>
        Graceful.bind' (str_graceful lim cap h) fun _ => Graceful.bind' Graceful.byte fun _ => Graceful.pure _
    · exact Graceful.pure _
  case blockInfo =>
    intro bs
    exact infoLoop_graceful _ false 0 bs

theorem decodeFrom_graceful (lim cap : Option Nat) (h : StrAllocOK lim cap) (v : Nat) :
    ∀ (fs : List Field) (acc : List FVal), Graceful (decodeFrom lim cap v fs acc) := by
  intro fs
  induction fs with
  | nil => intro acc; exact Graceful.pure _
  | cons f fs ih =>
    intro acc
    unfold decodeFrom
    split
    · exact Graceful.bind' (prim_graceful lim cap h f.prim) fun x => ih _
    · exact ih _

end Msg
end Model
