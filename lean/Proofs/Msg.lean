import Model.Msg
import Proofs.Wire
/-
Layer M proofs: per-primitive round trips and stability, then the generic descriptor
round trip `rt_from`, stability of `decodeFrom`, and revision-class invariance.
-/
namespace Model
namespace Msg
open Parser

/-! ### well-formedness of field values -/

def strOK (lim cap : Option Nat) (b : Bytes) : Prop :=
  b.length < 2 ^ 63 ∧ (∀ l, lim = some l → b.length ≤ l) ∧ (∀ c, cap = some c → b.length ≤ c)

def Prim.WF (lim cap : Option Nat) : Prim → FVal → Prop
  | .str, .s b => strOK lim cap b
  | .uvarint, .n v => 0 ≤ v ∧ v < 2 ^ 64
  | .int, .n v => -(2 ^ 63) ≤ v ∧ v < 2 ^ 63
  | .u8, .n v => 0 ≤ v ∧ v < 256
  | .i32, .n v => -(2 ^ 31) ≤ v ∧ v < 2 ^ 31
  | .i64, .n v => -(2 ^ 63) ≤ v ∧ v < 2 ^ 63
  | .bool, .b _ => True
  | .enum8 valid only, .n v => 0 ≤ v ∧ v < 256 ∧ valid.contains v.toNat = true ∧
      (∀ o, only = some o → v.toNat = o)
  | .enumV valid, .n v => 0 ≤ v ∧ v < 256 ∧ valid.contains v.toNat = true
  | .boolInt, .b _ => True
  | .settings, .kv xs => ∀ e ∈ xs, e.1 ≠ [] ∧ strOK lim cap e.1 ∧ e.2.1 < 8 ∧ strOK lim cap e.2.2
  | .params, .kv xs => ∀ e ∈ xs, e.1 ≠ [] ∧ strOK lim cap e.1 ∧ e.2.1 = 2 ∧ strOK lim cap e.2.2
  | .otel, .otel none => True
  | .otel, .otel (some (tid, sid, st, _)) =>
      tid.length = 16 ∧ sid.length = 8 ∧ allZero tid = false ∧ allZero sid = false ∧ strOK lim cap st
  | .blockInfo, .info _ bk => -(2 ^ 31) ≤ bk ∧ bk < 2 ^ 31
  | _, _ => False

/-! ### integer conversions -/

theorem u64_rt (v : Int) (h1 : -(2 ^ 63) ≤ v) (h2 : v < 2 ^ 63) : u64ToInt (intToU64 v) = v := by
  unfold u64ToInt intToU64
  have e64 : (2 : Int) ^ 64 = 18446744073709551616 := by decide
  have e63 : (2 : Int) ^ 63 = 9223372036854775808 := by decide
  have n63 : (2 : Nat) ^ 63 = 9223372036854775808 := by decide
  rw [e63] at h1 h2
  rw [e64, n63]
  have hnn : 0 ≤ v % 18446744073709551616 := Int.emod_nonneg _ (by decide)
  have hto : ((v % 18446744073709551616).toNat : Int) = v % 18446744073709551616 := Int.toNat_of_nonneg hnn
  split
  · rename_i hlt
    rw [hto]; omega
  · rename_i hge
    rw [hto]; omega

theorem intToU64_lt (v : Int) : intToU64 v < 2 ^ 64 := by
  unfold intToU64
  have e64 : (2 : Int) ^ 64 = 18446744073709551616 := by decide
  have n64 : (2 : Nat) ^ 64 = 18446744073709551616 := by decide
  rw [e64, n64]
  have hnn : 0 ≤ v % 18446744073709551616 := Int.emod_nonneg _ (by decide)
  have hlt : v % 18446744073709551616 < 18446744073709551616 := Int.emod_lt_of_pos _ (by decide)
  omega

theorem i4_rt (v : Int) (h1 : -(2 ^ 31) ≤ v) (h2 : v < 2 ^ 31) :
    iToInt 4 (intToI 4 v) = v ∧ intToI 4 v < 256 ^ 4 := by
  unfold iToInt intToI
  have e32 : (2 : Int) ^ (8 * 4) = 4294967296 := by decide
  have e31 : (2 : Int) ^ 31 = 2147483648 := by decide
  have n31 : (2 : Nat) ^ (8 * 4 - 1) = 2147483648 := by decide
  have n256 : (256 : Nat) ^ 4 = 4294967296 := by decide
  rw [e31] at h1 h2
  rw [e32, n31, n256]
  have hnn : 0 ≤ v % 4294967296 := Int.emod_nonneg _ (by decide)
  have hlt : v % 4294967296 < 4294967296 := Int.emod_lt_of_pos _ (by decide)
  have hto : ((v % 4294967296).toNat : Int) = v % 4294967296 := Int.toNat_of_nonneg hnn
  refine ⟨?_, by omega⟩
  split
  · rw [hto]; omega
  · rw [hto]; omega

theorem i8_rt (v : Int) (h1 : -(2 ^ 63) ≤ v) (h2 : v < 2 ^ 63) :
    iToInt 8 (intToI 8 v) = v ∧ intToI 8 v < 256 ^ 8 := by
  unfold iToInt intToI
  have e64 : (2 : Int) ^ (8 * 8) = 18446744073709551616 := by decide
  have e63 : (2 : Int) ^ 63 = 9223372036854775808 := by decide
  have n63 : (2 : Nat) ^ (8 * 8 - 1) = 9223372036854775808 := by decide
  have n256 : (256 : Nat) ^ 8 = 18446744073709551616 := by decide
  rw [e63] at h1 h2
  rw [e64, n63, n256]
  have hnn : 0 ≤ v % 18446744073709551616 := Int.emod_nonneg _ (by decide)
  have hlt : v % 18446744073709551616 < 18446744073709551616 := Int.emod_lt_of_pos _ (by decide)
  have hto : ((v % 18446744073709551616).toNat : Int) = v % 18446744073709551616 := Int.toNat_of_nonneg hnn
  refine ⟨?_, by omega⟩
  split
  · rw [hto]; omega
  · rw [hto]; omega

/-! ### primitive parsers on their own encodings -/

theorem guard_lim (lim : Option Nat) (n : Nat) :
    (∀ l, lim = some l → n ≤ l) →
    Parser.limOK lim n = true := by
  intro h
  cases lim with
  | none => rfl
  | some l => simp [Parser.limOK, h l rfl]

theorem guard_only (only : Option Nat) (n : Nat) :
    (∀ o, only = some o → n = o) →
    onlyOK only n = true := by
  intro h
  cases only with
  | none => rfl
  | some o => simp [onlyOK, h o rfl]

theorem str_rt (lim cap : Option Nat) (b r : Bytes) (h : strOK lim cap b) :
    Parser.str lim cap (putUvarint b.length ++ b ++ r) = .ok (b, r) := by
  obtain ⟨h1, h2, h3⟩ := h
  unfold Parser.str
  rw [List.append_assoc, bind_ok' (strLen_put _ h1 _)]
  rw [guard_lim lim b.length h2]
  have hguard : Parser.guard true .invalid (b ++ r) = .ok ((), b ++ r) := rfl
  rw [bind_ok' hguard]
  have halloc : Parser.alloc cap b.length (b ++ r) = .ok ((), b ++ r) := by
    cases cap with
    | none => rfl
    | some c => simp [Parser.alloc, h3 c rfl]
  rw [bind_ok' halloc]
  exact take_append b r

theorem int_rt (v : Int) (h1 : -(2 ^ 63) ≤ v) (h2 : v < 2 ^ 63) (r : Bytes) :
    Parser.int (putUvarint (intToU64 v) ++ r) = .ok (v, r) := by
  unfold Parser.int
  rw [uvarint_put _ (intToU64_lt v)]
  simp [u64_rt v h1 h2]

theorem swap64_swap64_16 (b : Bytes) (h : b.length = 16) : swap64 (swap64 b) = b := by
  match b, h with
  | [a0,a1,a2,a3,a4,a5,a6,a7,b0,b1,b2,b3,b4,b5,b6,b7], _ => rfl

theorem swap64_swap64_8 (b : Bytes) (h : b.length = 8) : swap64 (swap64 b) = b := by
  match b, h with
  | [a0,a1,a2,a3,a4,a5,a6,a7], _ => rfl

theorem swap64_length_16 (b : Bytes) (h : b.length = 16) : (swap64 b).length = 16 := by
  match b, h with
  | [a0,a1,a2,a3,a4,a5,a6,a7,b0,b1,b2,b3,b4,b5,b6,b7], _ => rfl

theorem swap64_length_8 (b : Bytes) (h : b.length = 8) : (swap64 b).length = 8 := by
  match b, h with
  | [a0,a1,a2,a3,a4,a5,a6,a7], _ => rfl

theorem kvLoop_rt (lim cap : Option Nat) (r : Bytes) : ∀ (fuel : Nat) (xs : List (Bytes × Nat × Bytes)),
    xs.length < fuel →
    (∀ e ∈ xs, e.1 ≠ [] ∧ strOK lim cap e.1 ∧ e.2.1 < 8 ∧ strOK lim cap e.2.2) →
    kvLoop lim cap false fuel (kvBytes xs ++ r) = .ok (xs, r) := by
  intro fuel
  induction fuel with
  | zero => intro xs h; omega
  | succ n ih =>
    intro xs hlen hwf
    cases xs with
    | nil =>
      unfold kvLoop
      have : Parser.str lim cap (kvBytes [] ++ r) = .ok ([], r) := by
        have := str_rt lim cap [] r ⟨by simp, by intro l _; simp, by intro c _; simp⟩
        simpa [kvBytes] using this
      rw [bind_ok' this]
      rfl
    | cons e xs =>
      obtain ⟨k, fl, v⟩ := e
      obtain ⟨hk, hks, hfl, hvs⟩ := hwf (k, fl, v) (by simp)
      simp only at hk hks hfl hvs
      unfold kvLoop
      have h1 : Parser.str lim cap (kvBytes ((k, fl, v) :: xs) ++ r) =
          .ok (k, putUvarint fl ++ putUvarint v.length ++ v ++ kvBytes xs ++ r) := by
        have := str_rt lim cap k (putUvarint fl ++ putUvarint v.length ++ v ++ kvBytes xs ++ r) hks
        simpa [kvBytes, List.append_assoc] using this
      rw [bind_ok' h1]
      have hne : k.isEmpty = false := by cases k <;> simp_all
      simp only [hne, Bool.false_eq_true, ↓reduceIte]
      have h2 : Parser.uvarint (putUvarint fl ++ putUvarint v.length ++ v ++ kvBytes xs ++ r) =
          .ok (fl, putUvarint v.length ++ v ++ (kvBytes xs ++ r)) := by
        have := uvarint_put fl (by omega) (putUvarint v.length ++ v ++ (kvBytes xs ++ r))
        simpa [List.append_assoc] using this
      rw [bind_ok' h2]
      rw [bind_ok' (str_rt lim cap v (kvBytes xs ++ r) hvs)]
      rw [bind_ok' (ih xs (by simp at hlen; omega) (fun e he => hwf e (by simp [he])))]
      simp [pure_def, Nat.mod_eq_of_lt hfl]

theorem kvLoop_rt_params (lim cap : Option Nat) (r : Bytes) : ∀ (fuel : Nat) (xs : List (Bytes × Nat × Bytes)),
    xs.length < fuel →
    (∀ e ∈ xs, e.1 ≠ [] ∧ strOK lim cap e.1 ∧ e.2.1 = 2 ∧ strOK lim cap e.2.2) →
    kvLoop lim cap true fuel (kvBytes (xs.map fun (k, _, v) => (k, 2, v)) ++ r) = .ok (xs, r) := by
  intro fuel
  induction fuel with
  | zero => intro xs h; omega
  | succ n ih =>
    intro xs hlen hwf
    cases xs with
    | nil =>
      unfold kvLoop
      have : Parser.str lim cap (kvBytes [] ++ r) = .ok ([], r) := by
        have := str_rt lim cap [] r ⟨by simp, by intro l _; simp, by intro c _; simp⟩
        simpa [kvBytes] using this
      simp only [List.map_nil]
      rw [bind_ok' this]
      rfl
    | cons e xs =>
      obtain ⟨k, fl, v⟩ := e
      obtain ⟨hk, hks, hfl, hvs⟩ := hwf (k, fl, v) (by simp)
      simp only at hfl
      subst hfl
      unfold kvLoop
      have h1 : Parser.str lim cap (kvBytes (((k, 2, v) :: xs).map fun (k, _, v) => (k, 2, v)) ++ r) =
          .ok (k, putUvarint 2 ++ putUvarint v.length ++ v ++
            kvBytes (xs.map fun (k, _, v) => (k, 2, v)) ++ r) := by
        have := str_rt lim cap k (putUvarint 2 ++ putUvarint v.length ++ v ++
          kvBytes (xs.map fun (k, _, v) => (k, 2, v)) ++ r) hks
        simpa [kvBytes, List.append_assoc] using this
      rw [bind_ok' h1]
      have hne : k.isEmpty = false := by cases k <;> simp_all
      simp only [hne, Bool.false_eq_true, ↓reduceIte]
      have h2 : Parser.uvarint (putUvarint 2 ++ putUvarint v.length ++ v ++
            kvBytes (xs.map fun (k, _, v) => (k, 2, v)) ++ r) =
          .ok (2, putUvarint v.length ++ v ++ (kvBytes (xs.map fun (k, _, v) => (k, 2, v)) ++ r)) := by
        have := uvarint_put 2 (by omega) (putUvarint v.length ++ v ++
          (kvBytes (xs.map fun (k, _, v) => (k, 2, v)) ++ r))
        simpa [List.append_assoc] using this
      rw [bind_ok' h2]
      rw [bind_ok' (str_rt lim cap v _ hvs)]
      rw [bind_ok' (ih xs (by simp at hlen; omega) (fun e he => hwf e (by simp [he])))]
      simp [pure_def]

theorem putUvarint_length_pos (x : Nat) : 0 < (putUvarint x).length := by
  rw [putUvarint]; split <;> simp

theorem kvBytes_length_ge (xs : List (Bytes × Nat × Bytes)) : xs.length < (kvBytes xs).length + 1 := by
  induction xs with
  | nil => simp
  | cons e xs ih =>
    obtain ⟨k, fl, v⟩ := e
    simp only [kvBytes, List.length_cons, List.length_append]
    have := putUvarint_length_pos k.length
    omega

/-- **Primitive round trip**: decoding a field's wire image yields the field and consumes it exactly. -/
theorem prim_rt (lim cap : Option Nat) (p : Prim) (x : FVal) (r : Bytes) (h : p.WF lim cap x) :
    p.dec lim cap (p.bytes x ++ r) = .ok (x, r) := by
  cases p <;> cases x <;> simp only [Prim.WF] at h <;> try exact absurd h id
  case str.s b =>
    simp only [Prim.dec, Prim.bytes]
    rw [bind_ok' (str_rt lim cap b r h)]; rfl
  case uvarint.n v =>
    simp only [Prim.dec, Prim.bytes]
    rw [bind_ok' (uvarint_put v.toNat (by omega) r)]
    simp [pure_def]; omega
  case int.n v =>
    simp only [Prim.dec, Prim.bytes]
    rw [bind_ok' (int_rt v h.1 h.2 r)]; rfl
  case u8.n v =>
    simp only [Prim.dec, Prim.bytes]
    have : Parser.byte ([UInt8.ofNat v.toNat] ++ r) = .ok (UInt8.ofNat v.toNat, r) := rfl
    rw [bind_ok' this]
    have : (UInt8.ofNat v.toNat).toNat = v.toNat := by simp [UInt8.toNat_ofNat']; omega
    simp [pure_def, this]; omega
  case i32.n v =>
    simp only [Prim.dec, Prim.bytes]
    obtain ⟨h3, h4⟩ := i4_rt v h.1 h.2
    rw [bind_ok' (le_put 4 _ h4 r)]
    simp [pure_def, h3]
  case i64.n v =>
    simp only [Prim.dec, Prim.bytes]
    obtain ⟨h3, h4⟩ := i8_rt v h.1 h.2
    rw [bind_ok' (le_put 8 _ h4 r)]
    simp [pure_def, h3]
  case bool.b v =>
    simp only [Prim.dec, Prim.bytes]
    cases v <;> rfl
  case enum8.n valid only v =>
    simp only [Prim.dec, Prim.bytes]
    have : Parser.byte ([UInt8.ofNat v.toNat] ++ r) = .ok (UInt8.ofNat v.toNat, r) := rfl
    rw [bind_ok' this]
    have hb : (UInt8.ofNat v.toNat).toNat = v.toNat := by simp [UInt8.toNat_ofNat']; omega
    rw [hb, h.2.2.1]
    have hg1 : Parser.guard true .invalid r = .ok ((), r) := rfl
    rw [bind_ok' hg1]
    rw [guard_only only v.toNat h.2.2.2, bind_ok' hg1]
    simp [pure_def]; omega
  case enumV.n valid v =>
    simp only [Prim.dec, Prim.bytes]
    rw [bind_ok' (uvarint_put v.toNat (by omega) r)]
    have hm : v.toNat % 256 = v.toNat := Nat.mod_eq_of_lt (by omega)
    rw [hm, h.2.2]
    have hg1 : Parser.guard true .invalid r = .ok ((), r) := rfl
    rw [bind_ok' hg1]
    simp [pure_def]; omega
  case boolInt.b v =>
    simp only [Prim.dec, Prim.bytes]
    cases v
    · have := int_rt 0 (by decide) (by decide) r
      simp [intToU64] at this
      simp only [Bool.false_eq_true, ↓reduceIte]
      rw [bind_ok' this]; rfl
    · have := int_rt 1 (by decide) (by decide) r
      simp [intToU64] at this
      simp only [↓reduceIte]
      rw [bind_ok' this]; rfl
  case settings.kv xs =>
    simp only [Prim.dec, Prim.bytes]
    rw [bind_ok' (kvLoop_rt lim cap r _ xs (by
      have := kvBytes_length_ge xs; simp only [List.length_append]; omega) h)]
    rfl
  case params.kv xs =>
    simp only [Prim.dec, Prim.bytes]
    rw [bind_ok' (kvLoop_rt_params lim cap r _ xs (by
      have := kvBytes_length_ge (xs.map fun (k, _, v) => (k, 2, v))
      simp only [List.length_append, List.length_map] at this ⊢; omega) h)]
    rfl
  case otel.otel o =>
    cases o with
    | none => simp only [Prim.dec, Prim.bytes]; rfl
    | some t =>
      obtain ⟨tid, sid, st, fl⟩ := t
      simp only [Prim.WF] at h
      obtain ⟨h1, h2, h3, h4, h5⟩ := h
      simp only [Prim.dec, Prim.bytes, h3, h4, Bool.or_self, Bool.false_eq_true, ↓reduceIte]
      have hb : Parser.bool ([1] ++ swap64 tid ++ swap64 sid ++ (putUvarint st.length ++ st) ++ [fl] ++ r)
          = .ok (true, swap64 tid ++ (swap64 sid ++ (putUvarint st.length ++ st ++ ([fl] ++ r)))) := by
        simp [Parser.bool, bind_def, Parser.byte, Parser.pure]
      rw [bind_ok' hb]
      simp only [↓reduceIte]
      have ht : Parser.take 16 (swap64 tid ++ (swap64 sid ++ (putUvarint st.length ++ st ++ ([fl] ++ r))))
          = .ok (swap64 tid, swap64 sid ++ (putUvarint st.length ++ st ++ ([fl] ++ r))) := by
        have := take_append (swap64 tid) (swap64 sid ++ (putUvarint st.length ++ st ++ ([fl] ++ r)))
        rwa [swap64_length_16 tid h1] at this
      rw [bind_ok' ht]
      have hs : Parser.take 8 (swap64 sid ++ (putUvarint st.length ++ st ++ ([fl] ++ r)))
          = .ok (swap64 sid, putUvarint st.length ++ st ++ ([fl] ++ r)) := by
        have := take_append (swap64 sid) (putUvarint st.length ++ st ++ ([fl] ++ r))
        rwa [swap64_length_8 sid h2] at this
      rw [bind_ok' hs, bind_ok' (str_rt lim cap st ([fl] ++ r) h5)]
      have hf : Parser.byte ([fl] ++ r) = .ok (fl, r) := rfl
      rw [bind_ok' hf]
      simp [pure_def, swap64_swap64_16 tid h1, swap64_swap64_8 sid h2]
  case blockInfo.info o bk =>
    simp only [Prim.dec, Prim.bytes]
    obtain ⟨h3, h4⟩ := i4_rt bk h.1 h.2
    have hlen : ([1] ++ [if o then 1 else 0] ++ [2] ++ leBytes 4 (intToI 4 bk) ++ [0] ++ r).length + 1
        = (r.length + 6) + 3 := by
      simp only [List.length_append, List.length_cons, List.length_nil, leBytes_length]
      omega
    rw [hlen]
    -- three iterations: id 1, id 2, id 0
    have u1 : Parser.uvarint ([1] ++ [if o then 1 else 0] ++ [2] ++ leBytes 4 (intToI 4 bk) ++ [0] ++ r)
        = .ok (1, [if o then 1 else 0] ++ ([2] ++ (leBytes 4 (intToI 4 bk) ++ ([0] ++ r)))) := by
      have := uvarint_put 1 (by omega) ([if o then 1 else 0] ++ ([2] ++ (leBytes 4 (intToI 4 bk) ++ ([0] ++ r))))
      rw [putUvarint_lt (by omega)] at this
      simpa [List.append_assoc] using this
    have ub : Parser.bool ([if o then (1 : UInt8) else 0] ++ ([2] ++ (leBytes 4 (intToI 4 bk) ++ ([0] ++ r))))
        = .ok (o, [2] ++ (leBytes 4 (intToI 4 bk) ++ ([0] ++ r))) := by
      cases o <;> rfl
    have u2 : Parser.uvarint ([2] ++ (leBytes 4 (intToI 4 bk) ++ ([0] ++ r)))
        = .ok (2, leBytes 4 (intToI 4 bk) ++ ([0] ++ r)) := by
      have := uvarint_put 2 (by omega) (leBytes 4 (intToI 4 bk) ++ ([0] ++ r))
      rw [putUvarint_lt (by omega)] at this
      simpa using this
    have u0 : Parser.uvarint ([0] ++ r) = .ok (0, r) := by
      have := uvarint_put 0 (by omega) r
      rw [putUvarint_lt (by omega)] at this
      simpa using this
    unfold infoLoop
    rw [bind_ok' u1]
    simp only [↓reduceIte]
    rw [bind_ok' ub]
    unfold infoLoop
    rw [bind_ok' u2]
    simp only [show (2 : Nat) ≠ 1 by decide, ↓reduceIte]
    rw [bind_ok' (le_put 4 _ h4 ([0] ++ r))]
    unfold infoLoop
    rw [bind_ok' u0]
    simp [pure_def, h3]

/-! ### stability of primitive decoders -/

theorem kvLoop_stable (lim cap : Option Nat) (d : Bool) : ∀ fuel, Stable (kvLoop lim cap d fuel)
  | 0 => Stable.fail _
  | n + 1 => by
    unfold kvLoop
    refine Stable.bind (Stable.str _ _) fun k => ?_
    split
    · exact Stable.pure _
    · exact Stable.bind Stable.uvarint fun fl => Stable.bind (Stable.str _ _) fun v =>
        Stable.bind (kvLoop_stable lim cap d n) fun rest => Stable.pure _

/-- more fuel does not change a successful run -/
theorem kvLoop_fuel_mono (lim cap : Option Nat) (d : Bool) : ∀ fuel bs a r,
    kvLoop lim cap d fuel bs = .ok (a, r) → ∀ k, kvLoop lim cap d (fuel + k) bs = .ok (a, r) := by
  intro fuel
  induction fuel with
  | zero => intro bs a r h; cases h
  | succ n ih =>
    intro bs a r h k
    have hk : n + 1 + k = (n + k) + 1 := by omega
    rw [hk]
    unfold kvLoop at h ⊢
    obtain ⟨key, r1, h1, h2⟩ := bind_ok_inv h
    rw [bind_ok' h1]
    split at h2
    · rename_i he; simp only [he, ↓reduceIte]; exact h2
    · rename_i he
      simp only [he, Bool.false_eq_true, ↓reduceIte]
      obtain ⟨fl, r2, h3, h4⟩ := bind_ok_inv h2
      rw [bind_ok' h3]
      obtain ⟨v, r3, h5, h6⟩ := bind_ok_inv h4
      rw [bind_ok' h5]
      obtain ⟨rest, r4, h7, h8⟩ := bind_ok_inv h6
      rw [bind_ok' (ih _ _ _ h7 k)]
      exact h8

theorem infoLoop_stable : ∀ fuel o bk, Stable (infoLoop fuel o bk)
  | 0, _, _ => Stable.fail _
  | n + 1, o, bk => by
    unfold infoLoop
    refine Stable.bind Stable.uvarint fun f => ?_
    split
    · exact Stable.bind Stable.bool fun v => infoLoop_stable n v bk
    · split
      · exact Stable.bind (Stable.le 4) fun v => infoLoop_stable n o _
      · split
        · exact Stable.pure _
        · exact Stable.fail _

theorem infoLoop_fuel_mono : ∀ fuel o bk bs a r,
    infoLoop fuel o bk bs = .ok (a, r) → ∀ k, infoLoop (fuel + k) o bk bs = .ok (a, r) := by
  intro fuel
  induction fuel with
  | zero => intro o bk bs a r h; cases h
  | succ n ih =>
    intro o bk bs a r h k
    have hk : n + 1 + k = (n + k) + 1 := by omega
    rw [hk]
    unfold infoLoop at h ⊢
    obtain ⟨f, r1, h1, h2⟩ := bind_ok_inv h
    rw [bind_ok' h1]
    split at h2
    · rename_i hf; simp only [hf, ↓reduceIte]
      obtain ⟨v, r2, h3, h4⟩ := bind_ok_inv h2
      rw [bind_ok' h3]; exact ih _ _ _ _ _ h4 k
    · rename_i hf1
      simp only [hf1, ↓reduceIte]
      split at h2
      · rename_i hf2; simp only [hf2, ↓reduceIte]
        obtain ⟨v, r2, h3, h4⟩ := bind_ok_inv h2
        rw [bind_ok' h3]; exact ih _ _ _ _ _ h4 k
      · rename_i hf2
        simp only [hf2, ↓reduceIte]
        exact h2

/-- a parser whose fuel is the input length is stable when the loop is stable and monotone in fuel -/
theorem stable_of_fuel {α} (loop : Nat → Parser α) (hs : ∀ n, Stable (loop n))
    (hm : ∀ n bs a r, loop n bs = .ok (a, r) → ∀ k, loop (n + k) bs = .ok (a, r)) :
    Stable (fun bs => loop (bs.length + 1) bs) := by
  intro bs a r ext h
  have h1 := hm _ _ _ _ h ext.length
  have h2 := hs _ _ _ _ ext h1
  simp only [List.length_append]
  have : bs.length + 1 + ext.length = bs.length + ext.length + 1 := by omega
  rw [this] at h2
  exact h2

theorem prim_stable (lim cap : Option Nat) (p : Prim) : Stable (p.dec lim cap) := by
  cases p <;> simp only [Prim.dec]
  case str => exact Stable.bind (Stable.str _ _) fun _ => Stable.pure _
  case uvarint => exact Stable.bind Stable.uvarint fun _ => Stable.pure _
  case int => exact Stable.bind Stable.int fun _ => Stable.pure _
  case u8 => exact Stable.bind Stable.byte fun _ => Stable.pure _
  case i32 => exact Stable.bind (Stable.le 4) fun _ => Stable.pure _
  case i64 => exact Stable.bind (Stable.le 8) fun _ => Stable.pure _
  case bool => exact Stable.bind Stable.bool fun _ => Stable.pure _
  case enum8 valid only =>
    exact Stable.bind Stable.byte fun _ => Stable.bind (Stable.guard _ _) fun _ =>
      Stable.bind (Stable.guard _ _) fun _ => Stable.pure _
  case enumV valid =>
    exact Stable.bind Stable.uvarint fun _ => Stable.bind (Stable.guard _ _) fun _ => Stable.pure _
  case boolInt => exact Stable.bind Stable.int fun _ => Stable.pure _
  case settings =>
    have := stable_of_fuel (fun n => (do let xs ← kvLoop lim cap false n; Pure.pure (FVal.kv xs) : Parser FVal))
      (fun n => Stable.bind (kvLoop_stable lim cap false n) fun _ => Stable.pure _)
      (fun n bs a r h k => by
        obtain ⟨xs, r1, h1, h2⟩ := bind_ok_inv h
        rw [bind_ok' (kvLoop_fuel_mono lim cap false n bs xs r1 h1 k)]; exact h2)
    exact this
  case params =>
    have := stable_of_fuel (fun n => (do let xs ← kvLoop lim cap true n; Pure.pure (FVal.kv xs) : Parser FVal))
      (fun n => Stable.bind (kvLoop_stable lim cap true n) fun _ => Stable.pure _)
      (fun n bs a r h k => by
        obtain ⟨xs, r1, h1, h2⟩ := bind_ok_inv h
        rw [bind_ok' (kvLoop_fuel_mono lim cap true n bs xs r1 h1 k)]; exact h2)
    exact this
  case otel =>
    refine Stable.bind Stable.bool fun has => ?_
    split
    · exact Stable.bind (Stable.take 16) fun _ => Stable.bind (Stable.take 8) fun _ =>
        Stable.bind (Stable.str _ _) fun _ => Stable.bind Stable.byte fun _ => Stable.pure _
    · exact Stable.pure _
  case blockInfo =>
    exact stable_of_fuel (fun n => infoLoop n false 0) (fun n => infoLoop_stable n false 0)
      (fun n bs a r h k => infoLoop_fuel_mono n false 0 bs a r h k)

/-! ### generic descriptor theorems -/

/-- Record well-formedness relative to a descriptor at revision `v`: same length; a condition
refers to an earlier field; an active field holds a well-formed value, an inactive one its
zero value (the record is in normal form for `v`). -/
def WFFrom (lim cap : Option Nat) (v : Nat) : List Field → List FVal → List FVal → Prop
  | [], _, [] => True
  | f :: fs, acc, x :: xs =>
    (∀ i val, f.cond = some (i, val) → i < acc.length) ∧
    (if f.active v acc then f.prim.WF lim cap x else x = f.prim.default) ∧
    WFFrom lim cap v fs (acc ++ [x]) xs
  | _, _, _ => False

theorem active_prefix (f : Field) (v : Nat) (acc xs : List FVal)
    (h : ∀ i val, f.cond = some (i, val) → i < acc.length) :
    f.active v (acc ++ xs) = f.active v acc := by
  unfold Field.active
  cases hc : f.cond with
  | none => rfl
  | some p =>
    obtain ⟨i, val⟩ := p
    have := h i val hc
    simp [List.getElem?_append_left this]

/-- **Generic round trip** (generalised over the already-processed prefix). -/
theorem rt_from (lim cap : Option Nat) (v : Nat) : ∀ (fs : List Field) (acc xs : List FVal) (r : Bytes),
    WFFrom lim cap v fs acc xs →
    decodeFrom lim cap v fs acc (encodeFrom v (acc ++ xs) fs xs ++ r) = .ok (acc ++ xs, r) := by
  intro fs
  induction fs with
  | nil =>
    intro acc xs r h
    cases xs with
    | nil => simp [decodeFrom, encodeFrom, pure_def]
    | cons x xs => simp [WFFrom] at h
  | cons f fs ih =>
    intro acc xs r h
    cases xs with
    | nil => simp [WFFrom] at h
    | cons x xs =>
      obtain ⟨hc, hx, hrest⟩ := h
      have hact := active_prefix f v acc (x :: xs) hc
      have hfull : acc ++ x :: xs = (acc ++ [x]) ++ xs := by simp
      simp only [decodeFrom, encodeFrom, hact]
      by_cases ha : f.active v acc = true
      · simp only [ha, ↓reduceIte] at hx ⊢
        rw [List.append_assoc, bind_ok' (prim_rt lim cap f.prim x _ hx)]
        rw [hfull]
        exact ih (acc ++ [x]) xs r hrest
      · simp only [ha, Bool.false_eq_true, ↓reduceIte, List.nil_append] at hx ⊢
        subst hx
        rw [hfull]
        exact ih (acc ++ [f.prim.default]) xs r hrest

theorem decodeFrom_stable (lim cap : Option Nat) (v : Nat) : ∀ (fs : List Field) (acc : List FVal),
    Stable (decodeFrom lim cap v fs acc) := by
  intro fs
  induction fs with
  | nil => intro acc; exact Stable.pure _
  | cons f fs ih =>
    intro acc
    unfold decodeFrom
    split
    · exact Stable.bind (prim_stable lim cap f.prim) fun x => ih _
    · exact ih _

/-- The revision only matters through the thresholds of the descriptor. -/
theorem all_congr_gates (gs : List Nat) (v v' : Nat) (h : ∀ t ∈ gs, featIn t v = featIn t v') :
    gs.all (fun t => featIn t v) = gs.all (fun t => featIn t v') := by
  induction gs with
  | nil => rfl
  | cons t ts ih =>
    simp only [List.all_cons]
    rw [h t (by simp), ih (fun u hu => h u (by simp [hu]))]

theorem active_congr (f : Field) (v v' : Nat) (env : List FVal)
    (h : ∀ t ∈ f.gates, featIn t v = featIn t v') : f.active v env = f.active v' env := by
  unfold Field.active
  rw [all_congr_gates f.gates v v' h]

theorem encodeFrom_congr (v v' : Nat) (full : List FVal) : ∀ (fs : List Field) (xs : List FVal),
    (∀ f ∈ fs, ∀ t ∈ f.gates, featIn t v = featIn t v') →
    encodeFrom v full fs xs = encodeFrom v' full fs xs := by
  intro fs
  induction fs with
  | nil => intro xs _; cases xs <;> rfl
  | cons f fs ih =>
    intro xs h
    cases xs with
    | nil => rfl
    | cons x xs =>
      simp only [encodeFrom]
      rw [active_congr f v v' full (h f (by simp)), ih xs (fun g hg => h g (by simp [hg]))]

theorem decodeFrom_congr (lim cap : Option Nat) (v v' : Nat) : ∀ (fs : List Field) (acc : List FVal),
    (∀ f ∈ fs, ∀ t ∈ f.gates, featIn t v = featIn t v') →
    decodeFrom lim cap v fs acc = decodeFrom lim cap v' fs acc := by
  intro fs
  induction fs with
  | nil => intro acc _; rfl
  | cons f fs ih =>
    intro acc h
    simp only [decodeFrom]
    rw [active_congr f v v' acc (h f (by simp))]
    have hrest : ∀ g ∈ fs, ∀ t ∈ g.gates, featIn t v = featIn t v' := fun g hg => h g (by simp [hg])
    split
    · congr 1
      funext x
      exact ih _ hrest
    · exact ih _ hrest

end Msg
end Model
