import Model.Do
open Model Model.Do

namespace Model.Do

def isRunning : RecvPc → Bool
  | .running _ => true
  | _ => false

/-- the invariant that carries C04 -/
structure Inv (s : St) : Prop where
  /-- a write that stopped inside a packet has closed the client -/
  wrote : s.wroteMid = true → s.closed = true
  /-- while the receive loop runs, no exception has been seen and the reader is at a boundary -/
  running : isRunning s.recv = true → s.readMid = false ∧ s.gotExc = false
  /-- a reader left inside a packet never coincides with a server exception -/
  excl : ¬ (s.readMid = true ∧ s.gotExc = true)

theorem inv_init (acts : List SendAct) (pkts : List SrvPkt) : Inv (init acts pkts) :=
  ⟨by simp [init], by simp [init], by simp [init]⟩

theorem failSender_fields (s : St) :
    (failSender s).wroteMid = s.wroteMid ∧ (failSender s).closed = s.closed ∧ (failSender s).recv = s.recv ∧
    (failSender s).readMid = s.readMid ∧ (failSender s).gotExc = s.gotExc := by simp [failSender]

theorem inv_sender (cfg : Cfg) (hc : cfg.closeOnWriteErr = true) (s : St) (h : Inv s) : Inv (stepSender cfg s) := by
  obtain ⟨h1, h2, h3⟩ := h
  unfold stepSender
  split
  · exact ⟨h1, h2, h3⟩
  · exact ⟨h1, h2, h3⟩
  · exact ⟨h1, h2, h3⟩
  · split
    · exact ⟨by simpa [failSender] using h1, by simpa [failSender] using h2, by simpa [failSender] using h3⟩
    · split
      · exact ⟨by simpa [failSender] using h1, by simpa [failSender] using h2, by simpa [failSender] using h3⟩
      · split
        · exact ⟨h1, h2, h3⟩
        · refine ⟨?_, by simpa [failSender] using h2, by simpa [failSender] using h3⟩
          simp [failSender, hc]
  · split
    · exact ⟨by simpa [failSender] using h1, by simpa [failSender] using h2, by simpa [failSender] using h3⟩
    · exact ⟨h1, h2, h3⟩

theorem inv_receiver (s : St) (h : Inv s) : Inv (stepReceiver s) := by
  obtain ⟨h1, h2, h3⟩ := h
  unfold stepReceiver
  split
  · exact ⟨h1, h2, h3⟩
  · refine ⟨h1, by simp [isRunning], h3⟩
  · rename_i pkts hr
    have hrun := h2 (by simp [hr, isRunning])
    split
    · exact ⟨h1, by simp [isRunning], h3⟩
    · split
      · exact ⟨h1, by simp [isRunning], h3⟩
      · split
        · exact ⟨h1, h2, h3⟩
        · exact ⟨h1, by simpa [isRunning] using hrun, h3⟩
        · exact ⟨h1, by simp [isRunning], h3⟩
        · exact ⟨h1, by simp [isRunning], by simp [hrun.1]⟩
        · exact ⟨h1, by simp [isRunning], by simp [hrun.2]⟩
        · exact ⟨h1, by simp [isRunning], by simp [hrun.2]⟩

theorem inv_watch (s : St) (h : Inv s) : Inv (stepWatch s) := by
  obtain ⟨h1, h2, h3⟩ := h
  unfold stepWatch
  split
  · exact ⟨h1, h2, h3⟩
  · split
    · exact ⟨h1, h2, h3⟩
    · split
      · exact ⟨by simp, h2, h3⟩
      · exact ⟨h1, h2, h3⟩

theorem inv_step (cfg : Cfg) (hc : cfg.closeOnWriteErr = true) (s : St) (t : Tid) (h : Inv s) : Inv (step cfg s t) := by
  cases t with
  | sender => exact inv_sender cfg hc s h
  | receiver => exact inv_receiver s h
  | watch => exact inv_watch s h
  | env => exact ⟨h.wrote, h.running, h.excl⟩

theorem inv_run (cfg : Cfg) (hc : cfg.closeOnWriteErr = true) (sched : List Tid) : ∀ s, Inv s → Inv (run cfg s sched) := by
  induction sched with
  | nil => intro s h; exact h
  | cons t ts ih => intro s h; exact ih _ (inv_step cfg hc s t h)

end Model.Do
