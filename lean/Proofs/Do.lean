import Model.Do
open Model Model.Do

namespace Model.Do

def isRunning : RecvPc → Bool
  | .running _ => true
  | _ => false

/-- the invariant that carries C04 -/
structure Inv (s : St) : Prop where
  /-- a write that stopped inside a packet has closed the client -/
  wrote : s.wroteMid = true → s.closed = true
  /-- while the receive loop runs, no exception has been seen and the reader is at a boundary -/
  running : isRunning s.recv = true → s.readMid = false ∧ s.gotExc = false
  /-- a reader left inside a packet never coincides with a server exception -/
  excl : ¬ (s.readMid = true ∧ s.gotExc = true)

theorem inv_init (acts : List SendAct) (pkts : List SrvPkt) : Inv (init acts pkts) :=
  ⟨by simp [init], by simp [init], by simp [init]⟩

theorem failSender_fields (s : St) :
    (failSender s).wroteMid = s.wroteMid ∧ (failSender s).closed = s.closed ∧ (failSender s).recv = s.recv ∧
    (failSender s).readMid = s.readMid ∧ (failSender s).gotExc = s.gotExc := by simp [failSender]

theorem inv_sender (cfg : Cfg) (hc : cfg.closeOnWriteErr = true) (s : St) (h : Inv s) : Inv (stepSender cfg s) := by
  obtain ⟨h1, h2, h3⟩ := h
  unfold stepSender
  split
  · exact ⟨h1, h2, h3⟩
  · exact ⟨h1, h2, h3⟩
  · exact ⟨h1, h2, h3⟩
  · split
    · exact ⟨by simpa [failSender] using h1, by simpa [failSender] using h2, by simpa [failSender] using h3⟩
    · split
      · exact ⟨by simpa [failSender] using h1, by simpa [failSender] using h2, by simpa [failSender] using h3⟩
      · split
        · exact ⟨h1, h2, h3⟩
        · refine ⟨?_, by simpa [failSender] using h2, by simpa [failSender] using h3⟩
          simp [failSender, hc]
  · split
    · exact ⟨by simpa [failSender] using h1, by simpa [failSender] using h2, by simpa [failSender] using h3⟩
    · exact ⟨h1, h2, h3⟩

theorem inv_receiver (s : St) (h : Inv s) : Inv (stepReceiver s) := by
  obtain ⟨h1, h2, h3⟩ := h
  unfold stepReceiver
  split
  · exact ⟨h1, h2, h3⟩
  · refine ⟨h1, by simp [isRunning], h3⟩
  · rename_i pkts hr
    have hrun := h2 (by simp [hr, isRunning])
    split
    · exact ⟨h1, by simp [isRunning], h3⟩
    · split
      · exact ⟨h1, by simp [isRunning], h3⟩
      · split
        · exact ⟨h1, h2, h3⟩
        · exact ⟨h1, by simpa [isRunning] using hrun, h3⟩
        · exact ⟨h1, by simp [isRunning], h3⟩
        · exact ⟨h1, by simp [isRunning], by simp [hrun.1]⟩
        · exact ⟨h1, by simp [isRunning], by simp [hrun.2]⟩
        · exact ⟨h1, by simp [isRunning], by simp [hrun.2]⟩

theorem inv_watch (s : St) (h : Inv s) : Inv (stepWatch s) := by
  obtain ⟨h1, h2, h3⟩ := h
  unfold stepWatch
  split
  · exact ⟨h1, h2, h3⟩
  · split
    · exact ⟨h1, h2, h3⟩
    · split
      · exact ⟨by simp, h2, h3⟩
      · exact ⟨h1, h2, h3⟩

theorem inv_step (cfg : Cfg) (hc : cfg.closeOnWriteErr = true) (s : St) (t : Tid) (h : Inv s) : Inv (step cfg s t) := by
  cases t with
  | sender => exact inv_sender cfg hc s h
  | receiver => exact inv_receiver s h
  | watch => exact inv_watch s h
  | env => exact ⟨h.wrote, h.running, h.excl⟩

theorem inv_run (cfg : Cfg) (hc : cfg.closeOnWriteErr = true) (sched : List Tid) : ∀ s, Inv s → Inv (run cfg s sched) := by
  induction sched with
  | nil => intro s h; exact h
  | cons t ts ih => intro s h; exact ih _ (inv_step cfg hc s t h)

end Model.Do

namespace Model.Do

/-! ### bounded progress once the context is dead -/

def senderLen (s : St) : Nat :=
  match s.sender with
  | none => 0
  | some acts => acts.length + 1

theorem stepSender_ctxDead (cfg : Cfg) (s : St) (h : s.ctxDead = true) : (stepSender cfg s).ctxDead = true := by
  unfold stepSender
  split
  · exact h
  · exact h
  · exact h
  · simp [h, failSender]
  · split
    · simp [failSender]
    · exact h

/-- with a dead context every sender step shortens what is left of it -/
theorem stepSender_progress (cfg : Cfg) (s : St) (h : s.ctxDead = true) (hp : 0 < senderLen s) :
    senderLen (stepSender cfg s) < senderLen s := by
  unfold senderLen at hp ⊢
  unfold stepSender
  cases hs : s.sender with
  | none => simp [hs] at hp
  | some acts =>
    cases acts with
    | nil => simp
    | cons a rest =>
      cases a with
      | encode n => simp
      | flush f => simp [h, failSender]
      | callback fails => by_cases hf : fails = true <;> simp [hf, failSender]

theorem stepSender_other (cfg : Cfg) (s : St) :
    (stepSender cfg s).recv = s.recv ∧ (stepSender cfg s).watchDone = s.watchDone ∧ (stepSender cfg s).done = s.done := by
  unfold stepSender
  split
  · simp
  · simp
  · simp
  · split
    · simp [failSender]
    · split
      · simp [failSender]
      · split <;> simp [failSender]
  · split <;> simp [failSender]

theorem run_cons (cfg : Cfg) (s : St) (t : Tid) (ts : List Tid) : run cfg s (t :: ts) = run cfg (step cfg s t) ts := rfl
theorem run_nil (cfg : Cfg) (s : St) : run cfg s [] = s := rfl
theorem run_append (cfg : Cfg) (s : St) (a b : List Tid) : run cfg s (a ++ b) = run cfg (run cfg s a) b := by
  simp [run, List.foldl_append]

/-- enough sender steps finish the sender -/
theorem sender_drains (cfg : Cfg) : ∀ (n : Nat) (s : St), s.ctxDead = true → senderLen s ≤ n →
    (run cfg s (List.replicate n .sender)).sender = none ∧
    (run cfg s (List.replicate n .sender)).ctxDead = true ∧
    (run cfg s (List.replicate n .sender)).recv = s.recv ∧
    (run cfg s (List.replicate n .sender)).watchDone = s.watchDone ∧
    (run cfg s (List.replicate n .sender)).done = s.done := by
  intro n
  induction n with
  | zero =>
    intro s h hl
    simp only [List.replicate, run_nil]
    refine ⟨?_, h, trivial, trivial, trivial⟩
    unfold senderLen at hl
    cases hs : s.sender with
    | none => rfl
    | some acts => simp [hs] at hl
  | succ n ih =>
    intro s h hl
    simp only [List.replicate, run_cons, step]
    have hd := stepSender_ctxDead cfg s h
    have ho := stepSender_other cfg s
    by_cases hp : 0 < senderLen s
    · have := stepSender_progress cfg s h hp
      obtain ⟨a, b, c, d, e⟩ := ih (stepSender cfg s) hd (by omega)
      exact ⟨a, b, by rw [c, ho.1], by rw [d, ho.2.1], by rw [e, ho.2.2]⟩
    · have hz : senderLen s = 0 := by omega
      have hnone : s.sender = none := by
        unfold senderLen at hz
        cases hs : s.sender with
        | none => rfl
        | some acts => simp [hs] at hz
      have hsame : stepSender cfg s = s := by unfold stepSender; simp [hnone]
      rw [hsame]
      exact ih s h (by omega)

/-- once the receive loop has left its loop it has signalled the cancel-watch -/
def Left (s : St) : Prop := isRunning s.recv = false → s.done = true

theorem left_init (acts : List SendAct) (pkts : List SrvPkt) : Left (init acts pkts) := by
  simp [Left, init, isRunning]

theorem left_step (cfg : Cfg) (s : St) (t : Tid) (h : Left s) : Left (step cfg s t) := by
  cases t with
  | sender =>
    have ho := stepSender_other cfg s
    intro hr
    rw [step, ho.2.2]
    rw [step, ho.1] at hr
    exact h hr
  | receiver =>
    simp only [step]
    unfold stepReceiver
    split
    · exact h
    · rename_i hr; intro _; exact h (by simp [hr, isRunning])
    · split
      · intro _; rfl
      · split
        · intro _; rfl
        · split
          · rename_i heq; intro h2; simp [heq, isRunning] at h2
          · intro h2; simp [isRunning] at h2
          · intro _; rfl
          · intro _; rfl
          · intro _; rfl
          · intro _; rfl
  | watch =>
    simp only [step]
    unfold stepWatch
    split
    · exact h
    · split
      · exact h
      · split <;> exact h
  | env => exact h

theorem left_run (cfg : Cfg) (sched : List Tid) : ∀ s, Left s → Left (run cfg s sched) := by
  induction sched with
  | nil => intro s h; exact h
  | cons t ts ih => intro s h; exact ih _ (left_step cfg s t h)

/-- the schedule that lets everything return once the context is dead -/
def drain (n : Nat) : List Tid := List.replicate n .sender ++ [.receiver, .receiver, .watch]

/-- **Bounded return**: from every state in which the shared context is dead (a goroutine failed,
or the caller cancelled), letting the sender take as many steps as it has actions left, the
receiver two and the cancel-watch one makes all three goroutines return. -/
theorem returns_after_failure (cfg : Cfg) (s : St) (hl : Left s) (hc : s.ctxDead = true) (n : Nat)
    (hn : senderLen s ≤ n) : (run cfg s (drain n)).allDone = true := by
  unfold drain
  rw [run_append]
  obtain ⟨h1, h2, h3, h4, h5⟩ := sender_drains cfg n s hc hn
  generalize run cfg s (List.replicate n Tid.sender) = s1 at *
  have hl1 : Left s1 := by intro hr; rw [h5]; rw [h3] at hr; exact hl hr
  simp only [run_cons, run_nil, step]
  -- two receiver steps
  have hrecv : (stepReceiver (stepReceiver s1)).recv = .finished ∧ (stepReceiver (stepReceiver s1)).done = true ∧
      (stepReceiver (stepReceiver s1)).sender = none ∧ (stepReceiver (stepReceiver s1)).watchDone = s1.watchDone := by
    cases hr : s1.recv with
    | finished =>
      have e : stepReceiver s1 = s1 := by unfold stepReceiver; simp [hr]
      rw [e, e]
      exact ⟨hr, hl1 (by simp [hr, isRunning]), h1, rfl⟩
    | returning =>
      have hd := hl1 (by simp [hr, isRunning])
      simp [stepReceiver, hr, hd, h1]
    | running pkts =>
      simp [stepReceiver, hr, h2, h1]
  obtain ⟨r1, r2, r3, r4⟩ := hrecv
  generalize stepReceiver (stepReceiver s1) = s2 at *
  unfold St.allDone stepWatch
  by_cases hw : s2.watchDone = true
  · simp [hw, r1, r3]
  · simp only [hw, Bool.false_eq_true, ↓reduceIte, r2, Bool.not_true]
    split <;> simp [r1, r3]

end Model.Do
