import Model.Parser
/-
Helper lemmas for layer W: combinator stability / consumption and primitive round trips.
-/
namespace Model
open Parser Outcome

namespace Parser

/-! ### unfolding lemmas -/

theorem bind_def {α β} (p : Parser α) (f : α → Parser β) (bs : Bytes) :
    (p >>= f) bs = match p bs with
      | .ok (a, rest) => f a rest
      | .err e => .err e
      | .panic => .panic
      | .oom => .oom := rfl

theorem bind_ok' {α β} {p : Parser α} {f : α → Parser β} {bs a r}
    (h : p bs = .ok (a, r)) : (p >>= f) bs = f a r := by
  simp [bind_def, h]

theorem pure_def {α} (a : α) (bs : Bytes) : (Pure.pure a : Parser α) bs = .ok (a, bs) := rfl

/-- inversion of a successful bind -/
theorem bind_ok_inv {α β} {p : Parser α} {f : α → Parser β} {bs b r}
    (h : (p >>= f) bs = .ok (b, r)) : ∃ a r', p bs = .ok (a, r') ∧ f a r' = .ok (b, r) := by
  rw [bind_def] at h
  split at h <;> first | exact ⟨_, _, ‹_›, h⟩ | cases h

/-! ### Stable -/

theorem Stable.pure {α} (a : α) : Stable (Pure.pure a : Parser α) := by
  intro bs a' r ext h
  simp [pure_def] at h ⊢
  obtain ⟨rfl, rfl⟩ := h; exact ⟨rfl, rfl⟩

theorem Stable.fail {α} (e : Err) : Stable (Parser.fail e : Parser α) := by
  intro bs a r ext h; cases h

theorem Stable.bind {α β} {p : Parser α} {f : α → Parser β}
    (hp : Stable p) (hf : ∀ a, Stable (f a)) : Stable (p >>= f) := by
  intro bs b r ext h
  obtain ⟨a, r', h1, h2⟩ := bind_ok_inv h
  rw [bind_ok' (hp _ _ _ ext h1)]
  exact hf a _ _ _ ext h2

theorem Stable.lift {α} (o : Outcome α) : Stable (Parser.lift o) := by
  intro bs a r ext h
  cases o <;> simp [Parser.lift] at h ⊢
  obtain ⟨rfl, rfl⟩ := h; exact ⟨rfl, rfl⟩

theorem Stable.guard (c : Bool) (e : Err) : Stable (Parser.guard c e) := by
  unfold Parser.guard; split
  · exact Stable.pure ()
  · exact Stable.fail e

theorem Stable.byte : Stable Parser.byte := by
  intro bs a r ext h
  cases bs with
  | nil => cases h
  | cons b rest => simp [Parser.byte] at h ⊢; exact ⟨h.1, by rw [h.2]⟩

theorem Stable.take (n : Nat) : Stable (Parser.take n) := by
  intro bs a r ext h
  unfold Parser.take at h ⊢
  split at h
  · rename_i hle
    have : n ≤ (bs ++ ext).length := by simp; omega
    simp only [this, ↓reduceIte]
    cases h
    simp [List.take_append_of_le_length hle, List.drop_append_of_le_length hle]
  · cases h

theorem Stable.alloc (cap : Option Nat) (n : Nat) : Stable (Parser.alloc cap n) := by
  intro bs a r ext h
  unfold Parser.alloc at h ⊢
  split at h
  · cases h; rfl
  · split at h
    · cases h; simp [*]
    · cases h

theorem Stable.uvarintAux : ∀ fuel i x, Stable (Parser.uvarintAux fuel i x) := by
  intro fuel
  induction fuel with
  | zero => intro i x; exact Stable.fail _
  | succ n ih =>
    intro i x bs a r ext h
    cases bs with
    | nil => cases h
    | cons b rest =>
      simp only [Parser.uvarintAux, List.cons_append] at h ⊢
      split at h
      · split at h
        · cases h
        · rename_i h1 h2; simp only [h1, ↓reduceIte, h2]; cases h; rfl
      · rename_i h1; simp only [h1, ↓reduceIte]; exact ih _ _ _ _ _ ext h

theorem Stable.uvarint : Stable Parser.uvarint := Stable.uvarintAux _ _ _

/-- post-processing of the value keeps stability -/
theorem Stable.mapOutcome {α β} {p : Parser α} (hp : Stable p) (g : α → Outcome β) :
    Stable (fun bs => match p bs with
      | .ok (a, r) => (match g a with | .ok b => .ok (b, r) | .err e => .err e | .panic => .panic | .oom => .oom)
      | .err e => .err e | .panic => .panic | .oom => .oom) := by
  intro bs b r ext h
  simp only at h ⊢
  split at h
  · rename_i a r' hpa
    rw [hp _ _ _ ext hpa]
    simp only
    split at h <;> first | (cases h; simp [*]) | cases h
  all_goals cases h

theorem Stable.int : Stable Parser.int := by
  intro bs a r ext h
  unfold Parser.int at h ⊢
  split at h <;> try cases h
  rename_i n r' hn
  rw [Stable.uvarint _ _ _ ext hn]

theorem Stable.strLen : Stable Parser.strLen := by
  intro bs a r ext h
  unfold Parser.strLen at h ⊢
  split at h <;> try cases h
  rename_i n r' hn
  rw [Stable.uvarint _ _ _ ext hn]
  simp only at h ⊢
  split at h
  · cases h; simp [*]
  · cases h

theorem Stable.str (lim cap : Option Nat) : Stable (Parser.str lim cap) := by
  unfold Parser.str
  exact Stable.bind Stable.strLen fun n => Stable.bind (Stable.guard _ _) fun _ =>
    Stable.bind (Stable.alloc _ _) fun _ => Stable.take _

theorem Stable.le (w : Nat) : Stable (Parser.le w) := by
  intro bs a r ext h
  unfold Parser.le at h ⊢
  split at h <;> try cases h
  rename_i v r' hv
  rw [Stable.take _ _ _ _ ext hv]

theorem Stable.ite {α} {c : Prop} [Decidable c] {p q : Parser α} (hp : Stable p) (hq : Stable q) :
    Stable (if c then p else q) := by
  split <;> assumption

theorem Stable.bool : Stable Parser.bool := by
  unfold Parser.bool
  exact Stable.bind Stable.byte fun b =>
    Stable.ite (Stable.pure _) (Stable.ite (Stable.pure _) (Stable.fail _))

theorem Stable.repeatN {α} {p : Parser α} (hp : Stable p) : ∀ n, Stable (Parser.repeatN p n)
  | 0 => Stable.pure _
  | n + 1 => by
    unfold Parser.repeatN
    exact Stable.bind hp fun a => Stable.bind (Stable.repeatN hp n) fun as => Stable.pure _

/-! ### truncation -/

/-- **Generic truncation theorem**: if a stable decoder consumes an encoding exactly, it
does not succeed on any proper prefix. -/
theorem truncation_not_ok {α} {dec : Parser α} (hs : Stable dec) {enc : Bytes} {x : α}
    (h : dec enc = .ok (x, [])) {p s : Bytes} (hsplit : enc = p ++ s) (hne : s ≠ []) :
    ∀ y r, dec p ≠ .ok (y, r) := by
  intro y r hp
  have := hs _ _ _ s hp
  rw [← hsplit, h] at this
  injection this with this
  injection this with _ h2
  have : s = [] := by
    have := congrArg List.length h2
    simp at this
    exact List.eq_nil_of_length_eq_zero (by omega)
  exact hne this

/-- With gracefulness, a proper prefix yields an error. -/
theorem truncation_fails {α} {dec : Parser α} (hs : Stable dec) (hg : Graceful dec)
    {enc : Bytes} {x : α}
    (h : dec enc = .ok (x, [])) {p s : Bytes} (hsplit : enc = p ++ s) (hne : s ≠ []) :
    ∃ e, dec p = .err e := by
  have hno := truncation_not_ok hs h hsplit hne
  have hgp := hg p
  cases hdp : dec p with
  | ok a => exact absurd hdp (hno a.1 a.2)
  | err e => exact ⟨e, rfl⟩
  | panic => rw [hdp] at hgp; cases hgp
  | oom => rw [hdp] at hgp; cases hgp

end Parser

/-! ### primitive round trips -/

theorem putUvarint_lt {x : Nat} (h : x < 128) : putUvarint x = [UInt8.ofNat x] := by
  rw [putUvarint]; simp [h]

theorem putUvarint_ge {x : Nat} (h : ¬ x < 128) :
    putUvarint x = UInt8.ofNat (x % 128 + 128) :: putUvarint (x / 128) := by
  rw [putUvarint]; simp [h]

theorem uvarintAux_cons (fuel i x : Nat) (b : UInt8) (rest : Bytes) :
    Parser.uvarintAux (fuel + 1) i x (b :: rest) =
      if b.toNat < 128 then
        if i = 9 ∧ b.toNat > 1 then .err .invalid
        else .ok (x + b.toNat * 2 ^ (7 * i), rest)
      else Parser.uvarintAux fuel (i + 1) (x + (b.toNat - 128) * 2 ^ (7 * i)) rest := rfl

theorem uvarintAux_put (r : Bytes) : ∀ fuel i acc x, i + fuel = 9 → x < 2 ^ (64 - 7 * i) →
    Parser.uvarintAux (fuel + 1) i acc (putUvarint x ++ r) = .ok (acc + x * 2 ^ (7 * i), r) := by
  intro fuel
  induction fuel with
  | zero =>
    intro i acc x hi hx
    have : i = 9 := by omega
    subst this
    have hx2 : x < 2 := by simpa using hx
    rw [putUvarint_lt (by omega)]
    have : (UInt8.ofNat x).toNat = x := by
      simp [UInt8.toNat_ofNat']; omega
    rw [List.singleton_append, uvarintAux_cons, this]
    have h1 : x < 128 := by omega
    have h2 : ¬ (True ∧ x > 1) := by omega
    simp only [h1, h2, ↓reduceIte]
  | succ n ih =>
    intro i acc x hi hx
    by_cases hlt : x < 128
    · rw [putUvarint_lt hlt]
      have : (UInt8.ofNat x).toNat = x := by
        simp [UInt8.toNat_ofNat']; omega
      rw [List.singleton_append, uvarintAux_cons, this]
      have h2 : ¬ (i = 9 ∧ x > 1) := by omega
      simp only [hlt, h2, ↓reduceIte]
    · rw [putUvarint_ge hlt]
      have hb : (UInt8.ofNat (x % 128 + 128)).toNat = x % 128 + 128 := by
        simp [UInt8.toNat_ofNat']; omega
      have hnot : ¬ (x % 128 + 128 < 128) := by omega
      rw [List.cons_append, uvarintAux_cons, hb]
      simp only [hnot, ↓reduceIte]
      have hpow : 2 ^ (64 - 7 * i) = 128 * 2 ^ (64 - 7 * (i + 1)) := by
        have : 64 - 7 * i = (64 - 7 * (i + 1)) + 7 := by omega
        rw [this, Nat.pow_add]; omega
      rw [ih (i + 1) _ (x / 128) (by omega) (by rw [hpow] at hx; omega)]
      have h7 : 2 ^ (7 * (i + 1)) = 2 ^ (7 * i) * 128 := by
        rw [Nat.mul_add, Nat.pow_add]
      rw [h7]
      have hx' : x = 128 * (x / 128) + x % 128 := (Nat.div_add_mod x 128).symm
      congr 2
      generalize 2 ^ (7 * i) = P
      have : x % 128 + 128 - 128 = x % 128 := by omega
      rw [this]
      calc acc + x % 128 * P + x / 128 * (P * 128)
          = acc + (128 * (x / 128) + x % 128) * P := by
            rw [Nat.add_mul, Nat.mul_comm P 128, ← Nat.mul_assoc, Nat.mul_comm (x / 128) 128]; omega
        _ = acc + x * P := by rw [← hx']

/-- uvarint round trip for every 64-bit value -/
theorem uvarint_put (x : Nat) (hx : x < 2 ^ 64) (r : Bytes) :
    Parser.uvarint (putUvarint x ++ r) = .ok (x, r) := by
  have := uvarintAux_put r 9 0 0 x (by omega) (by simpa using hx)
  simpa [Parser.uvarint] using this

theorem take_append (v r : Bytes) : Parser.take v.length (v ++ r) = .ok (v, r) := by
  simp [Parser.take]

theorem strLen_put (n : Nat) (hn : n < 2 ^ 63) (r : Bytes) :
    Parser.strLen (putUvarint n ++ r) = .ok (n, r) := by
  unfold Parser.strLen
  rw [uvarint_put n (by omega)]
  simp [hn]

theorem leBytes_length : ∀ w n, (leBytes w n).length = w
  | 0, _ => rfl
  | w + 1, n => by simp [leBytes, leBytes_length w]

theorem leVal_leBytes : ∀ w n, leVal (leBytes w n) = n % 256 ^ w
  | 0, n => by simp [leBytes, leVal, Nat.mod_one]
  | w + 1, n => by
    simp only [leBytes, leVal, leVal_leBytes w]
    have : (UInt8.ofNat (n % 256)).toNat = n % 256 := by
      simp [UInt8.toNat_ofNat']
    rw [this, Nat.pow_succ, Nat.mul_comm (256 ^ w) 256, Nat.mod_mul]

theorem le_put (w n : Nat) (hn : n < 256 ^ w) (r : Bytes) :
    Parser.le w (leBytes w n ++ r) = .ok (n, r) := by
  unfold Parser.le
  have := take_append (leBytes w n) r
  rw [leBytes_length] at this
  rw [this]
  simp [leVal_leBytes, Nat.mod_eq_of_lt hn]

theorem le_put_mod (w n : Nat) (r : Bytes) :
    Parser.le w (leBytes w n ++ r) = .ok (n % 256 ^ w, r) := by
  unfold Parser.le
  have := take_append (leBytes w n) r
  rw [leBytes_length] at this
  rw [this]
  simp [leVal_leBytes]

end Model
