import Proofs.Col
import Proofs.Msg
import Proofs.FrameRt
import Model.Block
/-
Block-level and stream-level round trips: composition of the header descriptor round trip
(Proofs.Msg), the column round trip (Proofs.Col) and the frame round trip (Proofs.Frame).
-/
open Model Model.Col Model.Msg Model.Parser Model.Block

namespace Model.Block

/-- bucket number as seen by a decoder: BlockInfo is not on the wire before 51903 -/
def seenBucket (v : Nat) (bk : Int) : Int := if featIn 51903 v then bk else 0

theorem header_rt (lim cap : Option Nat) (v : Nat) (bk : Int) (nc rows : Nat) (r : Bytes)
    (hb : -(2 ^ 31) ≤ bk ∧ bk < 2 ^ 31) (hn : (nc : Int) < 2 ^ 63) (hr : (rows : Int) < 2 ^ 63) :
    decodeD lim cap blockHeader v (encodeD blockHeader v (headerRec bk nc rows) ++ r) =
      .ok (headerRec (seenBucket v bk) nc rows, r) := by
  have henc : encodeD blockHeader v (headerRec bk nc rows) =
      encodeD blockHeader v (headerRec (seenBucket v bk) nc rows) := by
    unfold seenBucket
    by_cases h : featIn 51903 v = true
    · simp [h]
    · simp [h, encodeD, encodeFrom, blockHeader, headerRec, Field.active]
  rw [henc]
  have hwf : WFFrom lim cap v blockHeader [] (headerRec (seenBucket v bk) nc rows) := by
    have hcols : Prim.WF lim cap .int (.n (nc : Int)) := ⟨by omega, hn⟩
    have hrows : Prim.WF lim cap .int (.n (rows : Int)) := ⟨by omega, hr⟩
    unfold seenBucket
    by_cases h : featIn 51903 v = true
    · simp only [h, ↓reduceIte]
      refine ⟨by simp [blockHeader], ?_, by simp, ?_, by simp, ?_, trivial⟩
      · simp only [Field.active, h, List.all_cons, List.all_nil, Bool.and_true, ↓reduceIte]; exact hb
      · simp only [Field.active, List.all_nil, Bool.and_true, ↓reduceIte]; exact hcols
      · simp only [Field.active, List.all_nil, Bool.and_true, ↓reduceIte]; exact hrows
    · simp only [h, ↓reduceIte]
      refine ⟨by simp [blockHeader], ?_, by simp, ?_, by simp, ?_, trivial⟩
      · simp only [Field.active, h, List.all_cons, List.all_nil, Bool.and_true]; rfl
      · simp only [Field.active, List.all_nil, Bool.and_true, ↓reduceIte]; exact hcols
      · simp only [Field.active, List.all_nil, Bool.and_true, ↓reduceIte]; exact hrows
  have := rt_from lim cap v blockHeader [] _ r hwf
  simpa [decodeD, encodeD] using this

theorem state_rt : ∀ (c : Col) (r : Bytes), decState c.ty (encState c [] ++ r) = .ok ((), r) := by
  intro c
  induction c with
  | arr offs d ih => intro r; simp only [Col.ty, decState, encState]; exact ih r
  | nullable nulls v ih => intro r; simp only [Col.ty, decState, encState]; exact ih r
  | lc t rows =>
    intro r
    simp only [Col.ty, decState, encState, List.nil_append]
    rw [bind_ok' (le8_i64le 1 (by decide) r)]
    rfl
  | map offs k v ihk ihv =>
    intro r
    simp only [Col.ty, decState, encState]
    rw [encState_append v, List.append_assoc, bind_ok' (ihk _)]
    exact ihv r
  | pair a b iha ihb =>
    intro r
    simp only [Col.ty, decState, encState]
    rw [encState_append b, List.append_assoc, bind_ok' (iha _)]
    exact ihb r
  | versioned v c ih =>
    intro r
    simp only [Col.ty, decState, encState, List.nil_append]
    rw [encState_append c, List.append_assoc]
    have hle : Parser.le 8 (i64le v ++ (encState c [] ++ r)) = .ok (v % 256 ^ 8, encState c [] ++ r) := le_put_mod 8 v _
    rw [bind_ok' hle]
    have hg : (v % 256 ^ 8 == v % 18446744073709551616) = true := by
      have : (256 : Nat) ^ 8 = 18446744073709551616 := by decide
      rw [this]; simp
    rw [hg, bind_ok' (guard_true _ _)]
    exact ih r
  | _ => intro r; simp [Col.ty, decState, encState, Parser.pure]

/-- what a column must satisfy to be sent in a block of `rows` rows -/
def BCol.OK (cfg : Cfg) (rows : Nat) (c : BCol) : Prop :=
  strOK cfg.strLim cfg.cap c.name ∧ strOK cfg.strLim cfg.cap c.tyName ∧
    (rows ≠ 0 → c.col.rows = rows ∧ WF cfg c.col)

/-- contents as decoded: a zero-row block carries no column data -/
def seenCol (rows : Nat) (c : BCol) : Col := if rows = 0 then c.col.ty.empty else c.col

theorem colHeader_rt (cfg : Cfg) (v : Nat) (name ty r : Bytes)
    (h1 : strOK cfg.strLim cfg.cap name) (h2 : strOK cfg.strLim cfg.cap ty) :
    Results.header cfg v (colHeader v name ty ++ r) = .ok ((name, ty), r) := by
  unfold Results.header colHeader
  rw [List.append_assoc, bind_ok' (str_rt _ _ name _ h1)]
  rw [List.append_assoc, bind_ok' (str_rt _ _ ty _ h2)]
  by_cases hv : v ≥ 54454
  · simp only [hv, ↓reduceIte]
    have hb : Parser.bool ((0 : UInt8) :: r) = .ok (false, r) := by
      simp [Parser.bool, bind_def, Parser.byte, Parser.pure]
    have : ([0] ++ r : Bytes) = (0 : UInt8) :: r := rfl
    rw [this, bind_ok' hb]
    rfl
  · simp only [hv, ↓reduceIte, List.nil_append]; rfl

theorem colBody_rt (cfg : Cfg) (hcap : cfg.cap = none) (rows : Nat) (c : BCol) (r : Bytes)
    (h : rows ≠ 0 → c.col.rows = rows ∧ WF cfg c.col) :
    colBody cfg c.col.ty rows ((if rows = 0 then [] else encState c.col [] ++ encCol c.col []) ++ r) =
      .ok (seenCol rows c, r) := by
  unfold colBody seenCol
  by_cases h0 : rows = 0
  · simp [h0, Parser.pure]
  · simp only [h0, ↓reduceIte]
    obtain ⟨hr, hwf⟩ := h h0
    rw [List.append_assoc]
    have hs : decState c.col.ty (encState c.col [] ++ (encCol c.col [] ++ r)) = .ok ((), encCol c.col [] ++ r) := by
      exact state_rt c.col _
    rw [bind_ok' hs, ← hr]
    exact col_rt cfg hcap c.col r hwf

theorem decCols_rt (cfg : Cfg) (hcap : cfg.cap = none) (v rows : Nat) : ∀ (cols : List BCol) (r : Bytes),
    (∀ c ∈ cols, BCol.OK cfg rows c) →
    decCols cfg v rows (schemaOf cols) (colsBytes v rows cols ++ r) = .ok (cols.map (seenCol rows), r) := by
  intro cols
  induction cols with
  | nil => intro r _; rfl
  | cons c cs ih =>
    intro r h
    obtain ⟨h1, h2, h3⟩ := h c (by simp)
    simp only [schemaOf, List.map_cons, decCols, colsBytes, colBytes, List.append_assoc]
    rw [bind_ok' (colHeader_rt cfg v c.name c.tyName _ h1 h2)]
    simp only [beq_self_eq_true, Bool.true_or, Bool.and_self]
    rw [bind_ok' (guard_true _ _)]
    have := colBody_rt cfg hcap rows c (colsBytes v rows cs ++ r) h3
    rw [bind_ok' this]
    have ih' := ih r (fun x hx => h x (by simp [hx]))
    simp only [schemaOf] at ih'
    rw [bind_ok' ih']
    rfl

/-- **Block round trip**: a peer that knows the schema decodes exactly what was encoded -/
theorem block_rt (cfg : Cfg) (hcap : cfg.cap = none) (v : Nat) (bk : Int) (cols : List BCol) (rows : Nat)
    (r : Bytes) (hb : -(2 ^ 31) ≤ bk ∧ bk < 2 ^ 31) (hn : cols.length ≤ 1000000)
    (hr : rows ≤ cfg.maxRows) (hr2 : rows < 2 ^ 63) (hne : cols ≠ [] ∨ rows ≠ 0)
    (h : ∀ c ∈ cols, BCol.OK cfg rows c) :
    dec cfg v (schemaOf cols) (enc v bk cols rows ++ r) =
      .ok (some (seenBucket v bk, rows, cols.map (seenCol rows)), r) := by
  unfold dec enc
  rw [List.append_assoc]
  have hh := header_rt cfg.strLim cfg.cap v bk cols.length rows (colsBytes v rows cols ++ r) hb
    (by omega) (by omega)
  rw [bind_ok' hh]
  simp only [hdrFields, headerRec, afterHeader]
  have c1 : ¬ ((cols.length : Int) < 0 ∨ (cols.length : Int) > 1000000) := by omega
  have c2 : ¬ ((rows : Int) < 0) := by omega
  rw [if_neg c1, if_neg c2]
  have hcr : checkRows cfg (rows : Int).toNat (colsBytes v rows cols ++ r) = .ok (rows, colsBytes v rows cols ++ r) := by
    simp only [Int.toNat_natCast, checkRows]
    rw [if_neg (by omega), if_neg (by omega)]; rfl
  rw [bind_ok' hcr]
  have c3 : ¬ ((cols.length : Int) = 0 ∧ rows = 0) := by
    rcases hne with h1 | h1
    · intro ⟨h2, _⟩; apply h1; exact List.length_eq_zero_iff.mp (by omega)
    · intro ⟨_, h2⟩; exact h1 h2
  rw [if_neg c3]
  have hg : ((cols.length : Int).toNat == (schemaOf cols).length) = true := by simp [schemaOf]
  rw [hg, bind_ok' (guard_true _ _), bind_ok' (decCols_rt cfg hcap v rows cols r h)]
  rfl

/-- the terminator decodes as the end marker and nothing else does -/
theorem blank_rt (cfg : Cfg) (v : Nat) (schema : Schema) (r : Bytes) :
    dec cfg v schema (blank v ++ r) = .ok (none, r) := by
  unfold dec blank enc
  rw [List.append_assoc]
  have hh := header_rt cfg.strLim cfg.cap v 0 0 0 (colsBytes v 0 [] ++ r) (by decide) (by decide) (by decide)
  simp only [List.length_nil] at hh ⊢
  rw [bind_ok' hh]
  simp only [hdrFields, headerRec, afterHeader]
  have c1 : ¬ (((0 : Nat) : Int) < 0 ∨ ((0 : Nat) : Int) > 1000000) := by omega
  have c2 : ¬ (((0 : Nat) : Int) < 0) := by omega
  rw [if_neg c1, if_neg c2]
  have hcr : checkRows cfg ((0 : Nat) : Int).toNat (colsBytes v 0 [] ++ r) = .ok (0, colsBytes v 0 [] ++ r) := by
    simp [checkRows, Parser.pure]
  rw [bind_ok' hcr]
  have c3 : (((0 : Nat) : Int) = 0 ∧ (0 : Nat) = 0) := ⟨rfl, rfl⟩
  rw [if_pos c3]
  rfl


/-! ### stability of the block decoder (a result is unchanged when bytes are appended) -/

theorem header_stable (cfg : Cfg) (v : Nat) : Stable (Results.header cfg v) := by
  unfold Results.header
  refine Stable.bind (Stable.str _ _) fun name => Stable.bind (Stable.str _ _) fun ty => ?_
  split
  · exact Stable.bind Stable.bool fun c => Stable.bind (Stable.guard _ _) fun _ => Stable.pure _
  · exact Stable.pure _

theorem colBody_stable (cfg : Cfg) (ty : Ty) (rows : Nat) : Stable (colBody cfg ty rows) := by
  unfold colBody
  split
  · exact Stable.pure _
  · exact Stable.bind (decState_stable ty) fun _ => decCol_stable cfg ty rows

theorem decCols_stable (cfg : Cfg) (v rows : Nat) : ∀ (sc : Schema), Stable (decCols cfg v rows sc) := by
  intro sc
  induction sc with
  | nil => exact Stable.pure _
  | cons t ts ih =>
    obtain ⟨n, tn, ty⟩ := t
    simp only [decCols]
    exact Stable.bind (header_stable cfg v) fun h => Stable.bind (Stable.guard _ _) fun _ =>
      Stable.bind (colBody_stable cfg ty rows) fun c => Stable.bind ih fun cs => Stable.pure _

theorem afterHeader_stable (cfg : Cfg) (v : Nat) (sc : Schema) (h : Option (Int × Int × Int)) :
    Stable (afterHeader cfg v sc h) := by
  unfold afterHeader
  split
  · exact Stable.fail _
  · split
    · exact Stable.fail _
    · split
      · exact Stable.fail _
      · refine Stable.bind (checkRows_stable cfg _) fun n => ?_
        split
        · exact Stable.pure _
        · exact Stable.bind (Stable.guard _ _) fun _ => Stable.bind (decCols_stable cfg v n sc) fun cs => Stable.pure _

theorem dec_stable (cfg : Cfg) (v : Nat) (sc : Schema) : Stable (dec cfg v sc) := by
  unfold dec
  exact Stable.bind (decodeFrom_stable cfg.strLim cfg.cap v blockHeader []) fun h => afterHeader_stable cfg v sc _

end Model.Block
