import Model.Handshake
import Proofs.Msg
import Proofs.MsgSafe
/-
C13 — Handshake negotiates min(client, server) revision and fails cleanly.
-/
open Model Model.Msg Model.Parser Model.Handshake

/-- **Negotiation**: a hello (well formed at the client's revision) yields a connection whose
revision is the lower of the client's and the server's, reports the server identity as sent and
consumes exactly the hello. -/
theorem C13_negotiated_is_min (lim cap : Option Nat) (clientRev : Nat) (h : List FVal) (r : Bytes)
    (hw : WFFrom lim cap clientRev serverHello [] h) :
    receive lim cap clientRev ([0] ++ encodeD serverHello clientRev h ++ r) =
      .connected { rev := min clientRev (revisionOf h), server := h } r := by
  have hu : Parser.uvarint ([0] ++ encodeD serverHello clientRev h ++ r) =
      .ok (0, encodeD serverHello clientRev h ++ r) := by
    have := uvarint_put 0 (by decide) (encodeD serverHello clientRev h ++ r)
    simpa [putUvarint_lt] using this
  have hd : decodeD lim cap serverHello clientRev (encodeD serverHello clientRev h ++ r) = .ok (h, r) := by
    have := rt_from lim cap clientRev serverHello [] h r hw
    simpa [decodeD, encodeD] using this
  have hu' : Parser.uvarint ((0 : UInt8) :: (encodeD serverHello clientRev h ++ r)) =
      .ok (0, encodeD serverHello clientRev h ++ r) := by simpa using hu
  simp [receive, hu', hd]

/-- every later packet is gated by `Feature.In(min(client, server))`: a field with threshold `t`
is on the wire iff both sides have it -/
theorem C13_feature_iff_both (clientRev serverRev t : Nat) :
    featIn t (min clientRev serverRev) = (featIn t clientRev && featIn t serverRev) := by
  simp only [featIn]
  by_cases h1 : t ≤ clientRev <;> by_cases h2 : t ≤ serverRev <;> simp [h1, h2, Nat.le_min] <;> omega

/-- the addendum (quota key) is written exactly when the negotiated revision has it -/
theorem C13_addendum_iff (rev : Nat) (q : Bytes) :
    (addendum rev q = putUvarint q.length ++ q ∧ 54458 ≤ rev) ∨ (addendum rev q = [] ∧ rev < 54458) := by
  unfold addendum featIn
  by_cases h : 54458 ≤ rev
  · left; simp [h]
  · right; simp [h]; omega

/-- **Anything but a hello never yields a client**: an exception fails with the exception, any
other packet code fails -/
theorem C13_other_packet_fails (lim cap : Option Nat) (clientRev code : Nat) (reply rest : Bytes)
    (hc : code ≠ 0) (hu : Parser.uvarint reply = .ok (code, rest)) :
    ∀ c r', receive lim cap clientRev reply ≠ .connected c r' := by
  intro c r'
  simp only [receive, hu]
  by_cases h2 : code = 2
  · simp only [h2, ↓reduceIte]
    split <;> simp
  · simp [h2, hc]

/-- silence or a cut before the first byte, and a reply cut inside its first field, fail -/
theorem C13_no_reply_fails (lim cap : Option Nat) (clientRev : Nat) :
    receive lim cap clientRev [] = .failed .eof := by
  simp [receive, Parser.uvarint, Parser.uvarintAux]

/-- **A truncated hello never yields a client** (strict prefix of a well-formed hello) -/
theorem C13_truncated_hello_fails (lim cap : Option Nat) (clientRev : Nat) (h : List FVal) (k : Nat)
    (hw : WFFrom lim cap clientRev serverHello [] h)
    (hk : k < ([0] ++ encodeD serverHello clientRev h).length) :
    ∀ c r', receive lim cap clientRev (([0] ++ encodeD serverHello clientRev h).take k) ≠ .connected c r' := by
  intro c r'
  cases k with
  | zero => simp [receive, Parser.uvarint, Parser.uvarintAux]
  | succ k =>
    have hu : ∀ x : Bytes, Parser.uvarint ((0 : UInt8) :: x) = .ok (0, x) := by
      intro x
      have := uvarint_put 0 (by decide) x
      simpa [putUvarint_lt] using this
    have ht : ([0] ++ encodeD serverHello clientRev h).take (k + 1) = 0 :: (encodeD serverHello clientRev h).take k := by
      simp
    rw [ht]
    simp only [receive, hu]
    have hlen : k < (encodeD serverHello clientRev h).length := by simpa using hk
    have hd : decodeD lim cap serverHello clientRev (encodeD serverHello clientRev h ++ []) = .ok (h, []) := by
      have := rt_from lim cap clientRev serverHello [] h [] hw
      simpa [decodeD, encodeD] using this
    have hst := decodeFrom_stable lim cap clientRev serverHello []
    have hsplit : encodeD serverHello clientRev h =
        (encodeD serverHello clientRev h).take k ++ (encodeD serverHello clientRev h).drop k := by simp
    have hne : (encodeD serverHello clientRev h).drop k ≠ [] := by
      intro h0
      have := congrArg List.length h0
      simp at this; omega
    have hno := truncation_not_ok (dec := decodeD lim cap serverHello clientRev) hst (enc := encodeD serverHello clientRev h)
      (x := h) (by simpa using hd) hsplit hne
    simp only [Nat.reduceEqDiff, ↓reduceIte]
    split
    · rename_i h' r2 heq; exact absurd heq (hno h' r2)
    all_goals simp

/-! ### non-vacuity: a well-formed hello of a 54453 server as a 54460 client reads it -/
example : WFFrom none none 54460 serverHello []
    [.s [67, 72], .n 23, .n 8, .n 54453, .s [85, 84, 67], .s [100], .n 1] := by
  simp [WFFrom, serverHello, Field.active, featIn, Prim.WF, strOK]

example : min 54460 (revisionOf [.s [67, 72], .n 23, .n 8, .n 54453, .s [85, 84, 67], .s [100], .n 1]) = 54453 := by
  decide

/-! ### a hello that arrives before the handshake timeout is accepted (discrete-time model) -/

theorem C13.waitHello_aux : ∀ (fuel now readTO hsTO arrival : Nat), 0 < readTO → arrival < hsTO → now < hsTO →
    hsTO ≤ now + fuel * readTO → waitHello fuel now readTO hsTO arrival = true := by
  intro fuel
  induction fuel with
  | zero =>
    intro now readTO hsTO arrival hr ha hn hf
    simp only [Nat.zero_mul, Nat.add_zero] at hf
    omega
  | succ f ih =>
    intro now readTO hsTO arrival hr ha hn hf
    simp only [waitHello]
    by_cases h1 : arrival ≤ min (now + readTO) hsTO
    · simp [h1]
    · simp only [h1, ↓reduceIte]
      by_cases h2 : hsTO ≤ min (now + readTO) hsTO
      · exfalso
        have : min (now + readTO) hsTO = hsTO := by omega
        rw [this] at h1; omega
      · simp only [h2, ↓reduceIte]
        have hmin : min (now + readTO) hsTO = now + readTO := by omega
        rw [hmin]
        apply ih (now + readTO) readTO hsTO arrival hr ha (by omega)
        rw [Nat.succ_mul] at hf; omega

/-- **A hello that arrives at any time before the handshake timeout is accepted**, whatever the
per-packet read timeout (> 0): the retry loop reads it (enough attempts: `hsTO` of them always suffice). -/
theorem C13_hello_before_handshake_timeout (readTO hsTO arrival : Nat) (hr : 0 < readTO) (ha : arrival < hsTO) :
    waitHello hsTO 0 readTO hsTO arrival = true := by
  apply C13.waitHello_aux hsTO 0 readTO hsTO arrival hr ha (by omega)
  have : hsTO * 1 ≤ hsTO * readTO := Nat.mul_le_mul_left hsTO hr
  omega

/-- the earlier design (one read bounded by the read timeout) rejects a hello that arrives after
the read timeout although the handshake timeout is far away — finding F14, repaired -/
theorem C13_single_read_refuted : waitHelloOnce 3 300 90 = false ∧ waitHello 300 0 3 300 90 = true := by
  decide
