import Model.Pool
open Model Model.Pool
/-- placeholder replaced below by the full development -/
theorem C11_placeholder : True := trivial
