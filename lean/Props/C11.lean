import Proofs.Pool
/-
C11 — A pooled connection has one holder; dead or expired ones are never reissued.

`Model.Pool` is the state machine of chpool handles over the resource pool: every history of
acquire / release (once or repeatedly) / transport failure / passing time / health check /
close, for every configuration.  `fixed` is the code as repaired (`Release` forgets its
resource); `old` keeps the stale pointer.
-/
open Model Model.Pool

/-- the configuration under which the theorems are stated: any limits, `Release` clears the handle -/
def C11.fixed (max maxLife maxIdle : Nat) : Cfg := { max := max, maxLife := maxLife, maxIdle := maxIdle }

/-- **One holder, bounded size** — after every history: two handles never point at the same
connection, every handle points at a live connection, the number of live connections is at most
the configured maximum, and no release ever reached the underlying pool in a forbidden state. -/
theorem C11_single_holder_and_bound (max maxLife maxIdle : Nat) (ops : List Op) :
    let s := run (C11.fixed max maxLife maxIdle) {} ops
    (∀ p ∈ s.handles, ∀ q ∈ s.handles, p.2 = q.2 → p = q) ∧
    (∀ p ∈ s.handles, ∃ r ∈ s.live, r.id = p.2 ∧ r.held = true) ∧
    s.live.length ≤ max ∧ s.corrupt = false := by
  have h := inv_run (C11.fixed max maxLife maxIdle) rfl ops {} (inv_init _)
  exact ⟨h.single, h.ptr, h.bound, h.ok⟩

/-- **Dead or expired connections are destroyed at release** … -/
theorem C11_release_destroys_dead (cfg : Cfg) (hc : cfg.clearOnRelease = true) (s : St) (h : Inv cfg s)
    (hd id : Nat) (r : Res) (hl : lookup s.handles hd = some id) (hr : r ∈ s.live) (hid : r.id = id)
    (hdead : r.clientClosed = true ∨ s.now - r.born > cfg.maxLife) :
    id ∈ (step cfg s (.release hd)).destroyed ∧ ∀ x ∈ (step cfg s (.release hd)).live, x.id ≠ id := by
  have hmem := lookup_some hl
  obtain ⟨r', hr', hrid', hheld⟩ := h.ptr _ hmem
  have : r' = r := h.ids r' hr' r hr (by rw [hrid', hid])
  subst this
  have hcond : (r'.clientClosed || expired cfg s.now r' || s.closed) = true := by
    rcases hdead with h1 | h1
    · simp [h1]
    · simp [expired, h1]
  simp only [step, hl, find_live h hr hid, hheld, hcond, hc, Bool.not_true, Bool.false_eq_true, ↓reduceIte]
  refine ⟨by simp [destroy], ?_⟩
  intro x hx
  simp [destroy] at hx
  exact hx.2

/-- … **and never handed out again**: every connection ever destroyed is different from every
live connection and from every connection created later, after any continuation of the history. -/
theorem C11_destroyed_never_reissued (max maxLife maxIdle : Nat) (ops : List Op) :
    let s := run (C11.fixed max maxLife maxIdle) {} ops
    ∀ d ∈ s.destroyed, d < s.nextId ∧ (∀ r ∈ s.live, r.id ≠ d) ∧ (∀ p ∈ s.handles, p.2 ≠ d) := by
  intro s d hd
  have h := inv_run (C11.fixed max maxLife maxIdle) rfl ops {} (inv_init _)
  refine ⟨(h.dead d hd).1, (h.dead d hd).2, ?_⟩
  intro p hp he
  obtain ⟨r, hr, e1, _⟩ := h.ptr p hp
  exact (h.dead d hd).2 r hr (by rw [e1, he])

theorem C11.release_of_none (cfg : Cfg) (s : St) (hd : Nat) (h : lookup s.handles hd = none) :
    step cfg s (.release hd) = s := by
  simp only [step, h]

/-- **Releasing again has no effect**: the second `Release` of a handle leaves the whole state unchanged -/
theorem C11_double_release_noop (cfg : Cfg) (hc : cfg.clearOnRelease = true) (s : St) (h : Inv cfg s) (hd : Nat) :
    step cfg (step cfg s (.release hd)) (.release hd) = step cfg s (.release hd) := by
  have hgone : lookup (step cfg s (.release hd)).handles hd = none := by
    have hnot : ∀ hs : List (Nat × Nat), lookup (erase hs hd) hd = none := by
      intro hs
      unfold lookup erase
      have : (hs.filter (·.1 != hd)).find? (·.1 == hd) = none := by
        apply List.find?_eq_none.mpr
        intro x hx
        have := (List.mem_filter.mp hx).2
        simpa using this
      rw [this]; rfl
    simp only [step]
    split
    · assumption
    · rename_i id hl
      have hmem := lookup_some hl
      obtain ⟨r, hr, hrid, hrheld⟩ := h.ptr _ hmem
      simp only at hrid
      rw [find_live h hr hrid]
      simp only [hrheld, Bool.not_true, Bool.false_eq_true, ↓reduceIte, hc]
      split <;> simp [destroy, hnot]
  exact C11.release_of_none cfg _ hd hgone

/-- the health check destroys every idle connection past its lifetime or idle time -/
theorem C11_health_destroys_expired (cfg : Cfg) (s : St) (hcl : s.closed = false) (r : Res)
    (hr : r ∈ s.live) (hidle : r.held = false)
    (hexp : s.now - r.born > cfg.maxLife ∨ s.now - r.lastUsed > cfg.maxIdle) :
    r ∉ (step cfg s .health).live ∧ r.id ∈ (step cfg s .health).destroyed := by
  have hd : isDead cfg s.now r = true := by
    rcases hexp with h1 | h1 <;> simp [isDead, expired, h1]
  simp only [step, hcl, Bool.false_eq_true, ↓reduceIte]
  refine ⟨by simp [hidle, hd], ?_⟩
  simp only [List.mem_append, List.mem_map, List.mem_filter]
  exact Or.inl ⟨r, ⟨mem_idle.mpr ⟨hr, hidle⟩, hd⟩, rfl⟩

/-- after the pool is closed and every handle has been released, no connection is live -/
theorem C11_closed_and_released_is_empty (max maxLife maxIdle : Nat) (ops : List Op)
    (hcl : (run (C11.fixed max maxLife maxIdle) {} ops).closed = true)
    (hnone : (run (C11.fixed max maxLife maxIdle) {} ops).handles = [])
    (hidle : ∀ r ∈ (run (C11.fixed max maxLife maxIdle) {} ops).live, r.held = true) :
    (run (C11.fixed max maxLife maxIdle) {} ops).live = [] := by
  have h := inv_run (C11.fixed max maxLife maxIdle) rfl ops {} (inv_init _)
  generalize run (C11.fixed max maxLife maxIdle) {} ops = s at *
  cases hl : s.live with
  | nil => rfl
  | cons r rest =>
    obtain ⟨p, hp, _⟩ := h.owned r (by simp [hl]) (hidle r (by simp [hl]))
    simp [hnone] at hp

/-- close destroys every idle connection at once; the held ones are destroyed by their release -/
theorem C11_close_keeps_only_held (cfg : Cfg) (s : St) : ∀ r ∈ (step cfg s .close).live, r.held = true := by
  intro r hr
  simp [step] at hr
  exact hr.2

/-! ### the old `Release` (stale pointer kept) -/

def C11.old : Cfg := { max := 1, maxLife := 100, maxIdle := 100, clearOnRelease := false }

/-- with the stale pointer, a second `Release` by the first holder frees the connection the second
holder is using: a third acquire hands the same connection out — two holders -/
theorem C11_old_release_refuted :
    let s := run C11.old {} [.acquire 0 0, .release 0, .acquire 1 0, .release 0, .acquire 2 0]
    (1, 0) ∈ s.handles ∧ (2, 0) ∈ s.handles := by decide

/-- … and releasing a destroyed connection again reaches the underlying pool in a forbidden state -/
theorem C11_old_double_destroy_refuted :
    (run C11.old {} [.acquire 0 0, .fail 0, .release 0, .release 0]).corrupt = true := by decide

/-! ### non-vacuity: the same histories under the repaired `Release` -/
example : let s := run (C11.fixed 1 100 100) {} [.acquire 0 0, .release 0, .acquire 1 0, .release 0, .acquire 2 0]
    s.handles = [(1, 0)] ∧ s.corrupt = false := by decide
example : let s := run (C11.fixed 2 100 100) {} [.acquire 0 0, .fail 0, .release 0, .release 0, .acquire 1 0]
    s.destroyed = [0] ∧ s.handles = [(1, 1)] ∧ s.corrupt = false := by decide
