import Model.Results
import Proofs.Adopt
import Proofs.Col
/-
C18 — Result blocks bind only to compatible targets; mismatches are errors.
-/
open Model Model.Col Model.TypeStr Model.Results Model.Parser

/-- **count mismatch is an error** and nothing is read or bound (a block without rows may be
decoded without any target: the schema-only header block) -/
theorem C18_count_mismatch (x : Ext) (inf : Inf) (cfg : Cfg) (v : Nat) (ts : List Target) (columns rows : Nat) (bs : Bytes)
    (h : columns ≠ ts.length) (h2 : ¬ (ts = [] ∧ rows = 0)) :
    decodeResult x inf cfg v ts columns rows bs = (ts, .fail .invalid) := by
  unfold decodeResult
  have hc : columns ≠ ts.length ∧ ¬ (ts.isEmpty = true ∧ rows = 0) :=
    ⟨h, fun hh => h2 ⟨List.isEmpty_iff.mp hh.1, hh.2⟩⟩
  rw [if_pos hc]

/-- one step of the loop on a non-empty target list -/
theorem C18.bindLoop_step (x : Ext) (inf : Inf) (cfg : Cfg) (v rows n : Nat) (t : Target) (rest : List Target) (bs : Bytes) :
    bindLoop x inf cfg v rows false (n + 1) (t :: rest) bs =
      match header cfg v bs with
      | .ok ((name, ty), bs1) =>
          let t1 := if t.name.isEmpty then { t with name := name } else t
          if t1.name ≠ name then (t1 :: rest, .fail .invalid)
          else
            match inf t1 ty with
            | none => (t1 :: rest, .fail .invalid)
            | some ta =>
              if conflicts x ty ta.tyName then (ta :: rest, .fail .invalid)
              else
                let t2 := { ta with data := ta.ty.empty }
                if rows = 0 then
                  let (rest', s) := bindLoop x inf cfg v rows false n rest bs1
                  (t2 :: rest', s)
                else
                  match (do decState t2.ty; decCol cfg t2.ty rows : Parser Col) bs1 with
                  | .ok (c, bs2) =>
                    let (rest', s) := bindLoop x inf cfg v rows false n rest bs2
                    ({ t2 with data := c } :: rest', s)
                  | .err e => (t2 :: rest, .fail e)
                  | .panic => (t2 :: rest, .fail .other)
                  | .oom => (t2 :: rest, .fail .other)
      | .err e => (t :: rest, .fail e)
      | .panic => (t :: rest, .fail .other)
      | .oom => (t :: rest, .fail .other) := by
  simp only [bindLoop]
  rfl

/-- **name mismatch at the first column is an error**, and no target receives anything -/
theorem C18_name_mismatch (x : Ext) (inf : Inf) (cfg : Cfg) (v rows n : Nat) (t : Target) (rest : List Target) (bs bs1 name ty : Bytes)
    (hh : header cfg v bs = .ok ((name, ty), bs1)) (hne : t.name ≠ []) (hn : t.name ≠ name) :
    bindLoop x inf cfg v rows false (n + 1) (t :: rest) bs = (t :: rest, .fail .invalid) := by
  rw [C18.bindLoop_step, hh]
  have he : t.name.isEmpty = false := by cases h : t.name <;> simp_all
  simp [he, hn]

/-- **a target that cannot adopt the server's type is an error**; its contents are untouched -/
theorem C18_adoption_failure (x : Ext) (inf : Inf) (cfg : Cfg) (v rows n : Nat) (t : Target) (rest : List Target) (bs bs1 ty : Bytes)
    (hh : header cfg v bs = .ok ((t.name, ty), bs1)) (hne : t.name ≠ []) (hi : inf t ty = none) :
    bindLoop x inf cfg v rows false (n + 1) (t :: rest) bs = (t :: rest, .fail .invalid) := by
  rw [C18.bindLoop_step, hh]
  have he : t.name.isEmpty = false := by cases h : t.name <;> simp_all
  simp [he, hi]

/-- **type conflict is an error**: the type reported *after adoption* is what is compared; target data untouched
(only a blank name may have been filled and the parameters adopted) -/
theorem C18_type_mismatch (x : Ext) (inf : Inf) (cfg : Cfg) (v rows n : Nat) (t ta : Target) (rest : List Target) (bs bs1 ty : Bytes)
    (hh : header cfg v bs = .ok ((t.name, ty), bs1)) (hne : t.name ≠ []) (hi : inf t ty = some ta)
    (hc : conflicts x ty ta.tyName = true) :
    bindLoop x inf cfg v rows false (n + 1) (t :: rest) bs = (ta :: rest, .fail .invalid) := by
  rw [C18.bindLoop_step, hh]
  have he : t.name.isEmpty = false := by cases h : t.name <;> simp_all
  simp [he, hi, hc]

/-- what may have happened to a target when the loop stops: a non-blank name unchanged; its type either unchanged
or what `Infer` made of it from the header of its own column; and the data either untouched, or reset, or decoded
*as this target's (adopted) type from the stream position of its own column* -/
def C18.Rel (inf : Inf) (cfg : Cfg) (rows : Nat) (t t' : Target) : Prop :=
  (t.name ≠ [] → t'.name = t.name) ∧
  ((t'.ty = t.ty ∧ t'.tyName = t.tyName) ∨
    ∃ t1 ty ta, inf t1 ty = some ta ∧ t1.ty = t.ty ∧ t1.tyName = t.tyName ∧ t'.ty = ta.ty ∧ t'.tyName = ta.tyName) ∧
  (t'.data = t.data ∨ t'.data = t'.ty.empty ∨
    ∃ inp r, (do decState t'.ty; decCol cfg t'.ty rows : Parser Col) inp = .ok (t'.data, r))

/-- pointwise relation between two lists of equal length -/
inductive C18.All2 {α β} (R : α → β → Prop) : List α → List β → Prop
  | nil : All2 R [] []
  | cons {a b as bs} : R a b → All2 R as bs → All2 R (a :: as) (b :: bs)

theorem C18.Rel.refl (inf : Inf) (cfg : Cfg) (rows : Nat) (t : Target) : C18.Rel inf cfg rows t t :=
  ⟨fun _ => rfl, Or.inl ⟨rfl, rfl⟩, Or.inl rfl⟩

theorem C18.forall2_refl (inf : Inf) (cfg : Cfg) (rows : Nat) : ∀ ts : List Target, C18.All2 (C18.Rel inf cfg rows) ts ts
  | [] => .nil
  | t :: ts => .cons (C18.Rel.refl inf cfg rows t) (C18.forall2_refl inf cfg rows ts)

/-- the visited target after the name step keeps type, reported type, non-blank name and data -/
theorem C18.name_step (t : Target) (name : Bytes) :
    let t1 := if t.name.isEmpty then { t with name := name } else t
    t1.ty = t.ty ∧ t1.tyName = t.tyName ∧ (t.name ≠ [] → t1.name = t.name) ∧ t1.data = t.data := by
  simp only
  split
  · rename_i he
    exact ⟨rfl, rfl, fun hne => absurd (List.isEmpty_iff.mp he) hne, rfl⟩
  · exact ⟨rfl, rfl, fun _ => rfl, rfl⟩

/-- **Success is sound, and every outcome keeps columns apart**: whatever the loop returns —
completion or an error at any column — every target is related to its original by `Rel`: a given name kept,
its type its own or adopted from its own column's header, and its data untouched, reset, or what was decoded for
*its own* column.  No target ever holds data decoded for another position.  For every `Infer` that leaves names and
contents alone; by induction over the columns. -/
theorem C18_binding_invariant (x : Ext) (inf : Inf) (hinf : InfOK inf) (cfg : Cfg) (v rows : Nat) :
    ∀ (n : Nat) (ts : List Target) (bs : Bytes),
      C18.All2 (C18.Rel inf cfg rows) ts (bindLoop x inf cfg v rows false n ts bs).1 := by
  intro n
  induction n with
  | zero => intro ts bs; exact C18.forall2_refl inf cfg rows ts
  | succ n ih =>
    intro ts bs
    cases ts with
    | nil =>
      simp only [bindLoop]
      cases header cfg v bs with
      | ok a => obtain ⟨⟨name, ty⟩, bs1⟩ := a; exact .nil
      | err e => exact .nil
      | panic => exact .nil
      | oom => exact .nil
    | cons t rest =>
      rw [C18.bindLoop_step]
      cases hh : header cfg v bs with
      | err e => exact C18.forall2_refl inf cfg rows _
      | panic => exact C18.forall2_refl inf cfg rows _
      | oom => exact C18.forall2_refl inf cfg rows _
      | ok a =>
        obtain ⟨⟨name, ty⟩, bs1⟩ := a
        have hk := C18.name_step t name
        simp only at hk ⊢
        generalize (if t.name.isEmpty then { t with name := name } else t) = t1 at hk ⊢
        obtain ⟨k1, k2, k3, k4⟩ := hk
        split
        · exact .cons ⟨k3, Or.inl ⟨k1, k2⟩, Or.inl k4⟩ (C18.forall2_refl inf cfg rows rest)
        · cases hi : inf t1 ty with
          | none => exact .cons ⟨k3, Or.inl ⟨k1, k2⟩, Or.inl k4⟩ (C18.forall2_refl inf cfg rows rest)
          | some ta =>
            obtain ⟨a1, a2⟩ := hinf t1 ty ta hi
            have hname : t.name ≠ [] → ta.name = t.name := fun h => by rw [a1]; exact k3 h
            have hty : ∃ t1' ty' ta', inf t1' ty' = some ta' ∧ t1'.ty = t.ty ∧ t1'.tyName = t.tyName ∧
                ta.ty = ta'.ty ∧ ta.tyName = ta'.tyName := ⟨t1, ty, ta, hi, k1, k2, rfl, rfl⟩
            simp only
            split
            · exact .cons ⟨hname, Or.inr hty, Or.inl (by rw [a2]; exact k4)⟩ (C18.forall2_refl inf cfg rows rest)
            · split
              · have := ih rest bs1
                generalize bindLoop x inf cfg v rows false n rest bs1 = res at this ⊢
                obtain ⟨rest', s⟩ := res
                exact .cons ⟨hname, Or.inr hty, Or.inr (Or.inl rfl)⟩ this
              · cases hdc : (do decState ta.ty; decCol cfg ta.ty rows : Parser Col) bs1 with
                | ok cr =>
                  obtain ⟨c, bs2⟩ := cr
                  have := ih rest bs2
                  simp only
                  generalize bindLoop x inf cfg v rows false n rest bs2 = res at this ⊢
                  obtain ⟨rest', s⟩ := res
                  exact .cons ⟨hname, Or.inr hty, Or.inr (Or.inr ⟨bs1, bs2, hdc⟩)⟩ this
                | err e => exact .cons ⟨hname, Or.inr hty, Or.inr (Or.inl rfl)⟩ (C18.forall2_refl inf cfg rows rest)
                | panic => exact .cons ⟨hname, Or.inr hty, Or.inr (Or.inl rfl)⟩ (C18.forall2_refl inf cfg rows rest)
                | oom => exact .cons ⟨hname, Or.inr hty, Or.inr (Or.inl rfl)⟩ (C18.forall2_refl inf cfg rows rest)

/-- **Success is sound**: if binding completes, the first column's header was read, the target's
name was blank or equal to the column's, the target could adopt the server's type, and the adopted type does not
conflict with it (and, by the same statement applied to the rest of the loop, so for every later column in order). -/
theorem C18_success_sound_step (x : Ext) (inf : Inf) (cfg : Cfg) (v rows n : Nat) (t : Target) (rest ts' : List Target)
    (bs r : Bytes) (h : bindLoop x inf cfg v rows false (n + 1) (t :: rest) bs = (ts', .done r)) :
    ∃ name ty bs1 ta, header cfg v bs = .ok ((name, ty), bs1) ∧ (t.name = [] ∨ t.name = name) ∧
      inf (if t.name.isEmpty then { t with name := name } else t) ty = some ta ∧
      conflicts x ty ta.tyName = false := by
  rw [C18.bindLoop_step] at h
  cases hh : header cfg v bs with
  | err e => rw [hh] at h; simp at h
  | panic => rw [hh] at h; simp at h
  | oom => rw [hh] at h; simp at h
  | ok a =>
    obtain ⟨⟨name, ty⟩, bs1⟩ := a
    rw [hh] at h
    simp only at h
    have hname : t.name = [] ∨ t.name = name := by
      by_cases he : t.name.isEmpty = true
      · exact Or.inl (List.isEmpty_iff.mp he)
      · right
        simp only [he, Bool.false_eq_true, ↓reduceIte] at h
        by_cases hn : t.name = name
        · exact hn
        · simp [hn] at h
    obtain ⟨t1, ht1⟩ : ∃ t1, t1 = (if t.name.isEmpty then { t with name := name } else t) := ⟨_, rfl⟩
    rw [← ht1] at h
    by_cases hn : t1.name ≠ name
    · rw [if_pos hn] at h; simp at h
    · rw [if_neg hn] at h
      cases hi : inf t1 ty with
      | none => rw [hi] at h; simp at h
      | some ta =>
        rw [hi] at h
        simp only at h
        refine ⟨name, ty, bs1, ta, rfl, hname, by rw [← ht1]; exact hi, ?_⟩
        by_cases hc : conflicts x ty ta.tyName = true
        · simp [hc] at h
        · simpa using hc

/-- a target that is not `Inferable` satisfies the hypothesis of the invariant -/
theorem C18_noInf_ok : InfOK noInf := by
  intro t ty t' h
  simp only [noInf, Option.some.injEq] at h
  subst h; exact ⟨rfl, rfl⟩

/-! ## Adoption of the server's type parameters by inferable targets (`Infer` on typed columns) -/
section Adoption
open Model.Infer Model.Adopt Proofs.Adopt

/-- **`cutTypes` cuts exactly at the first top-level comma**: if `K` has no cut point and leaves the scanner at
nesting depth 0 outside quotes, then `K,V` is cut into `K` and `V` — whatever `V` is -/
theorem C18_cutTypes_splits (K V : Bytes) (h : scan K 0 false false = some (0, false, false)) :
    cutTypes (K ++ comma :: V) = (K, V, true) := by
  unfold cutTypes
  rw [cutTypesGo_scan K 0 false false 0 false false (comma :: V) [] h]
  rw [cutTypesGo]
  simp [show (comma == quote) = false by decide, show (comma == lparen) = false by decide,
    show (comma == rparen) = false by decide]

/-- a string without a cut point is returned whole, "not found" -/
theorem C18_cutTypes_none (K : Bytes) (s : Int × Bool × Bool) (h : scan K 0 false false = some s) :
    cutTypes K = (K, [], false) := by
  unfold cutTypes
  have := cutTypesGo_scan K 0 false false s.1 s.2.1 s.2.2 [] [] (by simpa using h)
  simp only [List.append_nil] at this
  rw [this, cutTypesGo]; simp

/-- an enum target adopts the server's definition verbatim, whatever it held before -/
theorem C18_adopt_enum_verbatim (x : IExt) (a t : Bytes) (c : TCol) (h : adopt x (.enum a) t = some c) :
    c = .enum t ∧ c.reported = t := by
  simp only [adopt, adoptEnum] at h
  split at h
  · exact absurd h (by simp)
  · split at h
    · exact absurd h (by simp)
    · split at h
      · cases h; exact ⟨rfl, rfl⟩
      · exact absurd h (by simp)

/-- nothing of the previous enum definition / time zone survives: adoption depends on the server's type only -/
theorem C18_adopt_history_free (x : IExt) (a b t : Bytes) (l1 l2 : Option Bytes) :
    adopt x (.enum a) t = adopt x (.enum b) t ∧ adopt x (.dateTime l1) t = adopt x (.dateTime l2) t := by
  constructor <;> simp [adopt]

/-! non-vacuity: an enum definition with a parenthesis, an escaped quote and a comma inside its names has no cut point;
`Map(Enum8('a,b' = 1), DateTime64(3, 'UTC'))` is cut at the comma between key and value type -/
example : scan [69, 110, 117, 109, 56, 40, 39, 97, 40, 39, 32, 61, 32, 49, 44, 32, 39, 105, 116, 92, 39, 115, 44, 32, 120, 39, 32, 61, 32, 50, 41] 0 false false = some (0, false, false) := by decide
example : cutTypes ([69, 110, 117, 109, 56, 40, 39, 97, 44, 98, 39, 32, 61, 32, 49, 41] ++ comma :: [32, 68, 97, 116, 101, 84, 105, 109, 101, 54, 52, 40, 51, 44, 32, 39, 85, 84, 67, 39, 41]) = ([69, 110, 117, 109, 56, 40, 39, 97, 44, 98, 39, 32, 61, 32, 49, 41], [32, 68, 97, 116, 101, 84, 105, 109, 101, 54, 52, 40, 51, 44, 32, 39, 85, 84, 67, 39, 41], true) := by decide

end Adoption
