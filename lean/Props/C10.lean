import Proofs.Do
/-
C10 — Cancellation ends the query, sends Cancel and closes the connection (the part that is logic).

Same model as C04; the caller's cancellation / deadline is the environment step `env`, allowed
at any position of the schedule.  Promptness (bounded by the read timeout) and goroutine
lifetime are properties of the runtime and are checked on the implementation only.
-/
open Model Model.Do

def C10.full : Cfg := {}

/-- **Every failure that is not a server exception leaves the client closed** — in particular
every run in which the caller's context was cancelled before the query completed. -/
theorem C10_failure_closes (acts : List SendAct) (pkts : List SrvPkt) (sched : List Tid)
    (he : (run C10.full (init acts pkts) sched).err = true)
    (hx : (run C10.full (init acts pkts) sched).gotExc = false) :
    (finish C10.full (run C10.full (init acts pkts) sched)).closed = true := by
  generalize run C10.full (init acts pkts) sched = s at *
  unfold finish
  by_cases hc : s.closed = true
  · simp [hc]
  · simp [he, hc, hx, C10.full]

/-- once the context is dead, the receive loop's next step ends it with an error and signals the
cancel-watch … -/
theorem C10_receiver_notices (s : St) (pkts : List SrvPkt) (hr : s.recv = .running pkts) (hc : s.ctxDead = true) :
    (stepReceiver s).recv = .returning ∧ (stepReceiver s).done = true := by
  simp [stepReceiver, hr, hc]

/-- … and the cancel-watch, when it then sees the dead context without a server exception,
writes the Cancel packet (if the connection is still open) and closes the client -/
theorem C10_watch_cancels (s : St) (hw : s.watchDone = false) (hd : s.done = true) (hc : s.ctxDead = true)
    (hx : s.gotExc = false) :
    (stepWatch s).closed = true ∧ (stepWatch s).cancelSent = !s.closed ∧ (stepWatch s).err = true := by
  simp [stepWatch, hw, hd, hc, hx]

/-- the sender never writes after the context is dead: its next flush fails without touching the connection -/
theorem C10_no_write_after_cancel (s : St) (fail : Option Bool) (rest : List SendAct)
    (hs : s.sender = some (.flush fail :: rest)) (hc : s.ctxDead = true) :
    (stepSender C10.full s).wroteMid = s.wroteMid ∧ (stepSender C10.full s).sender = none ∧
      (stepSender C10.full s).err = true ∧ (stepSender C10.full s).pending = 0 := by
  simp [stepSender, hs, hc, failSender, C10.full]

/-- **Cancellation ends the call, and ends it closed**: at whatever point of whatever run the
caller cancels (`env`), the three goroutines return within the bounded drain schedule, and —
unless the server had already failed the query with an exception — the call fails and the client
is closed once `Do` has finished. -/
theorem C10_cancel_returns_closed (acts : List SendAct) (pkts : List SrvPkt) (sched : List Tid) (n : Nat)
    (hn : senderLen (run C10.full (init acts pkts) (sched ++ [.env])) ≤ n) :
    let s := run C10.full (init acts pkts) (sched ++ [.env] ++ drain n)
    s.allDone = true ∧ (s.err = true → s.gotExc = false → (finish C10.full s).closed = true) := by
  have hdead : (run C10.full (init acts pkts) (sched ++ [.env])).ctxDead = true := by
    rw [run_append]; rfl
  refine ⟨?_, ?_⟩
  · rw [run_append]
    exact returns_after_failure C10.full _ (left_run C10.full _ _ (left_init acts pkts)) hdead n hn
  · intro he hx
    generalize run C10.full (init acts pkts) (sched ++ [.env] ++ drain n) = s at *
    unfold finish
    by_cases hc : s.closed = true
    · simp [hc]
    · simp [he, hc, hx, C10.full]

/-! ### non-vacuity: cancellation while a streamed insert waits for the server -/
example : let s := finish C10.full (run C10.full (init [.encode 9, .flush none, .callback false, .encode 3, .flush none] [.ok])
    [.sender, .sender, .receiver, .env, .sender, .sender, .sender, .receiver, .watch, .receiver])
    s.allDone = true ∧ s.err = true ∧ s.closed = true ∧ s.cancelSent = true := by decide
