import Proofs.Do
import Model.Timing
/-
C10 — Cancellation ends the query, sends Cancel and closes the connection (the part that is logic).

Same model as C04; the caller's cancellation / deadline is the environment step `env`, allowed
at any position of the schedule.  Promptness (bounded by the read timeout) and goroutine
lifetime are properties of the runtime and are checked on the implementation only.
-/
open Model Model.Do

def C10.full : Cfg := {}

/-- **Every failure that is not a server exception leaves the client closed** — in particular
every run in which the caller's context was cancelled before the query completed. -/
theorem C10_failure_closes (acts : List SendAct) (pkts : List SrvPkt) (sched : List Tid)
    (he : (run C10.full (init acts pkts) sched).err = true)
    (hx : (run C10.full (init acts pkts) sched).gotExc = false) :
    (finish C10.full (run C10.full (init acts pkts) sched)).closed = true := by
  generalize run C10.full (init acts pkts) sched = s at *
  unfold finish
  by_cases hc : s.closed = true
  · simp [hc]
  · simp [he, hc, hx, C10.full]

/-- once the context is dead, the receive loop's next step ends it with an error and signals the
cancel-watch … -/
theorem C10_receiver_notices (s : St) (pkts : List SrvPkt) (hr : s.recv = .running pkts) (hc : s.ctxDead = true) :
    (stepReceiver s).recv = .returning ∧ (stepReceiver s).done = true := by
  simp [stepReceiver, hr, hc]

/-- … and the cancel-watch, when it then sees the dead context without a server exception,
writes the Cancel packet (if the connection is still open) and closes the client -/
theorem C10_watch_cancels (s : St) (hw : s.watchDone = false) (hd : s.done = true) (hc : s.ctxDead = true)
    (hx : s.gotExc = false) :
    (stepWatch s).closed = true ∧ (stepWatch s).cancelSent = !s.closed ∧ (stepWatch s).err = true := by
  simp [stepWatch, hw, hd, hc, hx]

/-- the sender never writes after the context is dead: its next flush fails without touching the connection -/
theorem C10_no_write_after_cancel (s : St) (fail : Option Bool) (rest : List SendAct)
    (hs : s.sender = some (.flush fail :: rest)) (hc : s.ctxDead = true) :
    (stepSender C10.full s).wroteMid = s.wroteMid ∧ (stepSender C10.full s).sender = none ∧
      (stepSender C10.full s).err = true ∧ (stepSender C10.full s).pending = 0 := by
  simp [stepSender, hs, hc, failSender, C10.full]

/-- **Cancellation ends the call, and ends it closed**: at whatever point of whatever run the
caller cancels (`env`), the three goroutines return within the bounded drain schedule, and —
unless the server had already failed the query with an exception — the call fails and the client
is closed once `Do` has finished. -/
theorem C10_cancel_returns_closed (acts : List SendAct) (pkts : List SrvPkt) (sched : List Tid) (n : Nat)
    (hn : senderLen (run C10.full (init acts pkts) (sched ++ [.env])) ≤ n) :
    let s := run C10.full (init acts pkts) (sched ++ [.env] ++ drain n)
    s.allDone = true ∧ (s.err = true → s.gotExc = false → (finish C10.full s).closed = true) := by
  have hdead : (run C10.full (init acts pkts) (sched ++ [.env])).ctxDead = true := by
    rw [run_append]; rfl
  refine ⟨?_, ?_⟩
  · rw [run_append]
    exact returns_after_failure C10.full _ (left_run C10.full _ _ (left_init acts pkts)) hdead n hn
  · intro he hx
    generalize run C10.full (init acts pkts) (sched ++ [.env] ++ drain n) = s at *
    unfold finish
    by_cases hc : s.closed = true
    · simp [hc]
    · simp [he, hc, hx, C10.full]

/-! ### promptness (discrete-time model of the receive loop) -/

open Model.Timing in
theorem C10.notice_aux (readTO : Nat) (ctxD : Option Nat) (hr : 0 < readTO) :
    ∀ (fuel now cancel : Nat), cancel ≤ now + fuel * readTO →
      noticeAt (fun n => attemptDeadline n readTO ctxD) fuel now cancel ≤ max now cancel + readTO := by
  intro fuel
  induction fuel with
  | zero => intro now cancel _; simp [noticeAt]; omega
  | succ f ih =>
    intro now cancel hf
    simp only [noticeAt]
    by_cases h1 : cancel ≤ now
    · simp only [h1, ↓reduceIte]; omega
    · simp only [h1, ↓reduceIte]
      by_cases h2 : attemptDeadline now readTO ctxD ≤ now
      · simp only [h2, ↓reduceIte]; omega
      · simp only [h2, ↓reduceIte]
        have hd : attemptDeadline now readTO ctxD ≤ now + readTO := by
          unfold attemptDeadline; cases ctxD <;> simp <;> omega
        by_cases h3 : cancel ≤ attemptDeadline now readTO ctxD
        · -- noticed at the end of this attempt
          cases f with
          | zero => simp [noticeAt]; omega
          | succ g => simp only [noticeAt, h3, ↓reduceIte]; omega
        · -- the attempt ended before the cancellation
          cases ctxD with
          | none =>
            have hmin : attemptDeadline now readTO none = now + readTO := rfl
            have := ih (now + readTO) cancel (by rw [Nat.succ_mul] at hf; omega)
            rw [hmin]; omega
          | some d =>
            by_cases hdd : now + readTO ≤ d
            · have hmin : attemptDeadline now readTO (some d) = now + readTO := by
                unfold attemptDeadline; exact Nat.min_eq_left hdd
              have := ih (now + readTO) cancel (by rw [Nat.succ_mul] at hf; omega)
              rw [hmin]; omega
            · -- the context deadline d comes first and lies before the cancellation: the loop ends at d
              have hmin : attemptDeadline now readTO (some d) = d := by
                unfold attemptDeadline; exact Nat.min_eq_right (by omega)
              rw [hmin] at h3 h2 ⊢
              cases f with
              | zero => simp [noticeAt]; omega
              | succ g =>
                have hself : attemptDeadline d readTO (some d) = d := by
                  unfold attemptDeadline; exact Nat.min_eq_right (by omega)
                simp only [noticeAt, h3, ↓reduceIte, hself, Nat.le_refl]
                omega

open Model.Timing in
/-- **Cancellation is noticed within one read timeout**: with the receive loop blocked on a silent
server, a cancellation at instant `cancel` is noticed no later than `cancel + readTimeout`,
whatever deadline the caller's context carries. -/
theorem C10_noticed_within_read_timeout (readTO cancel : Nat) (ctxD : Option Nat) (hr : 0 < readTO) :
    noticeAt (fun n => attemptDeadline n readTO ctxD) (cancel + 1) 0 cancel ≤ cancel + readTO := by
  have := C10.notice_aux readTO ctxD hr (cancel + 1) 0 cancel (by
    have : (cancel + 1) * 1 ≤ (cancel + 1) * readTO := Nat.mul_le_mul_left _ hr
    omega)
  simpa using this

open Model.Timing in
/-- letting a far context deadline replace the read timeout loses that bound: cancelled at 5 with a
read timeout of 3 and a deadline at 1000, the loop notices at 1000 -/
theorem C10_ctx_deadline_first_refuted :
    noticeAt (fun n => attemptDeadlineCtxFirst n 3 (some 1000)) 10 0 5 = 1000 ∧
    noticeAt (fun n => attemptDeadline n 3 (some 1000)) 10 0 5 = 6 := by decide

/-! ### non-vacuity: cancellation while a streamed insert waits for the server -/
example : let s := finish C10.full (run C10.full (init [.encode 9, .flush none, .callback false, .encode 3, .flush none] [.ok])
    [.sender, .sender, .receiver, .env, .sender, .sender, .sender, .receiver, .watch, .receiver])
    s.allDone = true ∧ s.err = true ∧ s.closed = true ∧ s.cancelSent = true := by decide
