import Proofs.VecWriter
/-
C14 — The vectored writer emits exactly what was chained, once, in order.

`Model.VecWriter` models `proto.Writer` over an explicit heap (staging arrays with identity
and capacity, in-place appends, reallocation under an arbitrary growth policy, vector entries
that are references resolved at flush time).  The specification is a plain pending list.
-/
open Model Model.VecWriter

/-- **Refinement**: for every growth policy, every initial capacity, every caller memory and
every operation sequence (appends, zero-copy chains, caller-side mutations of chained slices,
flushes to accepting or failing sinks), the sink receives flush by flush exactly what the
pending-list specification says, with the same failure flags. -/
theorem C14_refines_spec (grow : Nat → Nat) (cap : Nat) (mem0 : Mem) (ops : List Op) :
    (run grow { w := W.init cap, mem := mem0, outs := [] } ops).outs =
      (Spec.run { pending := [], mem := mem0, outs := [] } ops).outs := by
  have h0 : R { w := W.init cap, mem := mem0, outs := [] } { pending := [], mem := mem0, outs := [] } :=
    ⟨J_init cap, rfl, rfl, fun m => by simp [content, resolve, tailBytes, W.init, specOut]⟩
  exact (run_R grow ops _ _ h0).outs

/-- pending items contributed by a flush-free operation sequence -/
def C14.itemsOf : List Op → List Item
  | [] => []
  | .app bs :: ops => .bytes bs :: C14.itemsOf ops
  | .chain i :: ops => .slot i :: C14.itemsOf ops
  | _ :: ops => C14.itemsOf ops

def C14.noFlush : List Op → Bool
  | [] => true
  | .flush _ :: _ => false
  | _ :: ops => C14.noFlush ops

theorem C14.spec_run_noflush (ops : List Op) (h : C14.noFlush ops = true) : ∀ (s : Spec),
    (s.run ops).pending = s.pending ++ C14.itemsOf ops ∧ (s.run ops).outs = s.outs := by
  induction ops with
  | nil => intro s; simp [Spec.run, C14.itemsOf]
  | cons op ops ih =>
    intro s
    cases op with
    | app bs =>
      have := ih (by simpa [C14.noFlush] using h) (s.step (.app bs))
      show ((s.step (.app bs)).run ops).pending = _ ∧ ((s.step (.app bs)).run ops).outs = _
      rw [this.1, this.2]; simp [Spec.step, C14.itemsOf]
    | chain i =>
      have := ih (by simpa [C14.noFlush] using h) (s.step (.chain i))
      show ((s.step (.chain i)).run ops).pending = _ ∧ ((s.step (.chain i)).run ops).outs = _
      rw [this.1, this.2]; simp [Spec.step, C14.itemsOf]
    | mutate i bs =>
      have := ih (by simpa [C14.noFlush] using h) (s.step (.mutate i bs))
      show ((s.step (.mutate i bs)).run ops).pending = _ ∧ ((s.step (.mutate i bs)).run ops).outs = _
      rw [this.1, this.2]; simp [Spec.step, C14.itemsOf]
    | flush k => simp [C14.noFlush] at h

theorem C14.spec_run_append (s : Spec) (a b : List Op) : s.run (a ++ b) = (s.run a).run b := by
  simp [Spec.run, List.foldl_append]

/-- **Exactly what was chained since the previous flush, once, in order; nothing from before
a flush (successful or failed) is ever written again.**  After any history `ops1` ending in a
flush to any sink `k1`, a flush-free sequence `ops2` followed by a flush to `k2` delivers
`sinkTake k2` of the concatenation — resolved against caller memory at flush time — of
exactly the items of `ops2`. -/
theorem C14_flush_concat_nothing_twice (grow : Nat → Nat) (cap : Nat) (mem0 : Mem)
    (ops1 ops2 : List Op) (k1 k2 : Sink) (h2 : C14.noFlush ops2 = true) :
    ∃ memF, (run grow { w := W.init cap, mem := mem0, outs := [] }
        (ops1 ++ [.flush k1] ++ ops2 ++ [.flush k2])).outs =
      (run grow { w := W.init cap, mem := mem0, outs := [] } (ops1 ++ [.flush k1])).outs ++
        [sinkTake k2 (specOut memF (C14.itemsOf ops2))] := by
  rw [C14_refines_spec, C14_refines_spec]
  generalize hs0 : ({ pending := [], mem := mem0, outs := [] } : Spec) = s0
  rw [C14.spec_run_append, C14.spec_run_append]
  generalize hs1 : s0.run (ops1 ++ [.flush k1]) = s1
  have hp : s1.pending = [] := by
    rw [← hs1, C14.spec_run_append]
    simp [Spec.run, Spec.step]
  obtain ⟨hq, ho⟩ := C14.spec_run_noflush ops2 h2 s1
  refine ⟨(s1.run ops2).mem, ?_⟩
  simp only [Spec.run, List.foldl_cons, List.foldl_nil, Spec.step] at hq ho ⊢
  rw [ho, hq, hp, List.nil_append]

/-- A sink that fails after `n` bytes has received exactly the first `n` bytes of the
concatenation (and reports the failure); one that does not fail received all of it. -/
theorem C14_failed_prefix (n : Nat) (out : Bytes) :
    sinkTake (.failAfter n) out = if out.length ≤ n then (out, false) else (out.take n, true) := rfl

/-! ### non-vacuity: a run with reallocation in the middle of a cut, a mutation between chain
and flush, and a failing sink -/
example :
    (run (fun n => n + 3) { w := W.init 2, mem := fun i => if i = 0 then [7, 7] else [], outs := [] }
      [.app [1], .chain 0, .app [2, 3, 4], .mutate 0 [8, 9], .app [5], .flush (.failAfter 5),
       .app [6], .flush .acceptAll]).outs =
    [([1, 8, 9, 2, 3], true), ([6], false)] := by decide
