import Model.Recv
import Proofs.ServerStream
/-
C03 — Results, telemetry and exceptions are delivered exactly once, in order.

`Model.Recv.recv` is the receive loop of `Client.Do` over the list of server packets.
-/
open Model.Recv

def C03.isStop : Pkt → Bool
  | .exception _ | .endOfStream | .unexpected => true
  | _ => false

/-- the packets the loop consumes: everything before the first terminating packet -/
def C03.upToStop : List Pkt → List Pkt
  | [] => []
  | p :: ps => if C03.isStop p then [] else p :: C03.upToStop ps

/-- the events a packet produces when no callback fails -/
def C03.eventsOf (h : Handlers) : Pkt → List Ev
  | .data cols rows | .totals cols rows =>
    if cols = 0 ∧ rows = 0 then [] else if h.onResult then [.result false cols rows] else []
  | .progress id => if h.onProgress then [.progress id] else []
  | .profile id => if h.onProfile then [.profile id] else []
  | .events cols n =>
    if cols = 0 ∧ n = 0 then []
    else (if h.onEvents then [Ev.events n] else []) ++ (if h.onEvent then (range n).map Ev.event else [])
  | .logs cols n =>
    if cols = 0 ∧ n = 0 then []
    else (if h.onLogs then [Ev.logs n] else []) ++ (if h.onLog then (range n).map Ev.log else [])
  | _ => []

theorem C03.callMany_nofail (h : Handlers) (hf : h.failAt = none) : ∀ (evs : List Ev) (s : St),
    callMany h s evs = ({ s with trace := s.trace ++ evs, calls := s.calls + evs.length }, false) := by
  intro evs
  induction evs with
  | nil => intro s; simp [callMany]
  | cons e es ih =>
    intro s
    simp only [callMany, call, hf]
    have : (none == some s.calls) = false := rfl
    simp only [this, Bool.false_eq_true, ↓reduceIte]
    rw [ih]
    simp [List.append_assoc, Nat.add_assoc, Nat.add_comm 1]

/-- one step without failing callbacks and with a result callback: the packet's events are
appended and the loop goes on — unless the packet terminates the stream -/
theorem C03.step_nofail (h : Handlers) (hf : h.failAt = none) (hr : h.onResult = true) (s : St) (p : Pkt)
    (hp : C03.isStop p = false) :
    ∃ s', step h s p = (s', none) ∧ s'.trace = s.trace ++ C03.eventsOf h p := by
  have hcall : ∀ e, call h s e = ({ s with trace := s.trace ++ [e], calls := s.calls + 1 }, false) := by
    intro e; simp [call, hf]
  cases p with
  | data cols rows =>
    simp only [step, C03.eventsOf, hr]
    by_cases h0 : cols = 0 ∧ rows = 0
    · simp [h0]
    · simp only [h0, ↓reduceIte, hcall]; exact ⟨_, rfl, rfl⟩
  | totals cols rows =>
    simp only [step, C03.eventsOf, hr]
    by_cases h0 : cols = 0 ∧ rows = 0
    · simp [h0]
    · simp only [h0, ↓reduceIte, hcall]; exact ⟨_, rfl, rfl⟩
  | progress id =>
    simp only [step, C03.eventsOf]
    by_cases hh : h.onProgress = true
    · simp only [hh, ↓reduceIte, hcall]; exact ⟨_, rfl, rfl⟩
    · simp [hh]
  | profile id =>
    simp only [step, C03.eventsOf]
    by_cases hh : h.onProfile = true
    · simp only [hh, ↓reduceIte, hcall]; exact ⟨_, rfl, rfl⟩
    · simp [hh]
  | events cols n =>
    simp only [step, C03.eventsOf]
    by_cases h0 : cols = 0 ∧ n = 0
    · simp [h0]
    · simp only [h0, ↓reduceIte]
      rw [C03.callMany_nofail h hf]
      exact ⟨_, rfl, rfl⟩
  | logs cols n =>
    simp only [step, C03.eventsOf]
    by_cases h0 : cols = 0 ∧ n = 0
    · simp [h0]
    · simp only [h0, ↓reduceIte]
      rw [C03.callMany_nofail h hf]
      exact ⟨_, rfl, rfl⟩
  | tableColumns => exact ⟨s, rfl, by simp [C03.eventsOf]⟩
  | exception codes => simp [C03.isStop] at hp
  | endOfStream => simp [C03.isStop] at hp
  | unexpected => simp [C03.isStop] at hp

/-- **Exactly once, in server order**: with no failing callback the trace is the concatenation,
in order, of the events of every packet before the terminating one — nothing dropped, nothing
repeated, nothing after the end. -/
theorem C03_exactly_once_in_order (h : Handlers) (hf : h.failAt = none) (hr : h.onResult = true) :
    ∀ (ps : List Pkt) (s : St),
    (run h s ps).1.trace = s.trace ++ ((C03.upToStop ps).map (C03.eventsOf h)).flatten := by
  intro ps
  induction ps with
  | nil => intro s; simp [run, C03.upToStop]
  | cons p ps ih =>
    intro s
    by_cases hp : C03.isStop p = true
    · simp only [C03.upToStop, hp, ↓reduceIte, List.map_nil, List.flatten_nil, List.append_nil]
      cases p <;> simp [C03.isStop] at hp <;> simp [run, step]
    · have hp' : C03.isStop p = false := by simpa using hp
      obtain ⟨s', h1, h2⟩ := C03.step_nofail h hf hr s p hp'
      simp only [run, h1, C03.upToStop, hp', Bool.false_eq_true, ↓reduceIte, List.map_cons, List.flatten_cons]
      rw [ih s', h2, List.append_assoc]

/-- the result of the call is decided by the first terminating packet … -/
theorem C03_result_of_stop (h : Handlers) (hf : h.failAt = none) (hr : h.onResult = true) :
    ∀ (pre : List Pkt) (stop : Pkt) (post : List Pkt) (s : St),
    (∀ p ∈ pre, C03.isStop p = false) → C03.isStop stop = true →
    (run h s (pre ++ stop :: post)).2 =
      match stop with
      | .exception codes => .exception codes
      | .endOfStream => .nil
      | _ => .protocolError := by
  intro pre
  induction pre with
  | nil =>
    intro stop post s _ hs
    cases stop <;> simp [C03.isStop] at hs <;> simp [run, step]
  | cons p pre ih =>
    intro stop post s hpre hs
    obtain ⟨s', h1, _⟩ := C03.step_nofail h hf hr s p (hpre p (by simp))
    simp only [List.cons_append, run, h1]
    exact ih stop post s' (fun q hq => hpre q (by simp [hq])) hs

/-- … **nil exactly when the stream ended with EndOfStream** (no callback failing): a stream
that ends without it, or with an exception or an unexpected packet first, is an error -/
theorem C03_nil_iff_end_of_stream (h : Handlers) (hf : h.failAt = none) (hr : h.onResult = true)
    (pre post : List Pkt) (stop : Pkt) (hpre : ∀ p ∈ pre, C03.isStop p = false) (hs : C03.isStop stop = true) :
    (recv h (pre ++ stop :: post)).2 = .nil ↔ stop = .endOfStream := by
  have := C03_result_of_stop h hf hr pre stop post { trace := [], calls := 0, seenRows := false } hpre hs
  simp only [recv]
  rw [this]
  cases stop <;> simp [C03.isStop] at hs <;> simp

theorem C03_cut_stream_is_error (h : Handlers) (hf : h.failAt = none) (hr : h.onResult = true) :
    ∀ (ps : List Pkt) (s : St), (∀ p ∈ ps, C03.isStop p = false) → (run h s ps).2 = .eof := by
  intro ps
  induction ps with
  | nil => intro s _; rfl
  | cons p ps ih =>
    intro s hps
    obtain ⟨s', h1, _⟩ := C03.step_nofail h hf hr s p (hps p (by simp))
    simp only [run, h1]
    exact ih s' (fun q hq => hps q (by simp [hq]))

/-- **a server exception is returned with its whole chain of codes**, whatever preceded it -/
theorem C03_exception_chain (h : Handlers) (hf : h.failAt = none) (hr : h.onResult = true)
    (pre post : List Pkt) (codes : List Int) (hpre : ∀ p ∈ pre, C03.isStop p = false) :
    (recv h (pre ++ .exception codes :: post)).2 = .exception codes := by
  have := C03_result_of_stop h hf hr pre (.exception codes) post { trace := [], calls := 0, seenRows := false } hpre rfl
  simpa [recv] using this

/-- a failing callback ends the call with an error at once: no later callback runs -/
theorem C03_failing_callback_stops (h : Handlers) (s : St) (e : Ev) (hf : h.failAt = some s.calls) :
    (call h s e).2 = true := by
  simp [call, hf]

/-! ### non-vacuity -/
example : recv { onResult := true, onProgress := true, onProfile := false, onEvents := true, onEvent := true,
                 onLogs := false, onLog := false, failAt := none }
    [.data 2 0, .data 2 3, .progress 7, .events 6 2, .data 0 0, .endOfStream, .data 2 9] =
    ([.result false 2 0, .result false 2 3, .progress 7, .events 2, .event 0, .event 1], .nil) := by decide

/-! ### the byte level -/

open Model.ServerStream in
/-- **From bytes to callbacks**: for every list of well-formed server packets (blocks of the
caller's result schema or end markers, telemetry blocks, progress, profile, table columns,
exception chains, EndOfStream, Pong), at every revision, compressed or not, the receive loop
run on the concatenated encodings — parse one packet, act on it, continue — gives exactly what
the receive specification gives on the packet list; every packet is consumed exactly. Together
with `C08_readFull_any_schedule` this holds under every segmentation of the bytes. -/
theorem C03_byte_level (cfg : Model.Col.Cfg) (hcap : cfg.cap = none) (s : Model.Send.Conn) (sch : Schemas)
    (h : Handlers) (ps : List SPkt) (fuel : Nat) (st : St) (hf : ps.length < fuel)
    (hok : ∀ p ∈ ps, SPkt.OK cfg s sch p) :
    runBytes s cfg sch h fuel st (encStream s ps) = run h st (ps.map fun p => absR (seen s.v p)) :=
  runBytes_spec cfg hcap s sch h ps fuel st hf hok

open Model.ServerStream in
/-- one packet: parsed back to itself, exactly consumed -/
theorem C03_packet_roundtrip (cfg : Model.Col.Cfg) (hcap : cfg.cap = none) (s : Model.Send.Conn) (sch : Schemas)
    (p : SPkt) (r : Model.Bytes) (h : SPkt.OK cfg s sch p) :
    decPkt s cfg sch (encPkt s p ++ r) = .ok (seen s.v p, r) :=
  decPkt_rt cfg hcap s sch p r h
