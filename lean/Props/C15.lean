import Model.Codec
import Proofs.Col
/-
C15 — The pure-Go build and the default build of the codecs behave identically.
-/
open Model Model.Codec Model.Col

/-- generated codecs, encode: under a little-endian memory layout the block copy of the default
build and the per-element conversion of the purego build append the same bytes to any buffer -/
theorem C15_encode_agree (L : Layout) (hL : L.image = leBytes) (w : Nat) (vals : List Nat) (buf : Bytes) :
    encUnsafe L w vals buf = encSafe w vals buf := by
  simp [encUnsafe, encSafe, hL]

theorem chunk_take (w : Nat) : ∀ (rows : Nat) (bs : Bytes), rows * w ≤ bs.length →
    chunk w rows (bs.take (rows * w)) = chunk w rows bs := by
  intro rows
  induction rows with
  | zero => intro bs _; rfl
  | succ n ih =>
    intro bs h
    simp only [chunk]
    have hw : w ≤ (n + 1) * w := by rw [Nat.succ_mul]; omega
    congr 1
    · rw [List.take_take, Nat.min_eq_left hw]
    · rw [List.drop_take]
      have : (n + 1) * w - w = n * w := by rw [Nat.succ_mul]; omega
      rw [this]
      exact ih (bs.drop w) (by simp; rw [Nat.succ_mul] at h; omega)

/-- generated codecs, decode into an empty column: same values, same remaining input, same error -/
theorem C15_decode_agree (L : Layout) (hL : L.value = fun _ b => leVal b) (w rows : Nat) (bs : Bytes) :
    decUnsafe L w rows bs = decSafe w rows bs := by
  unfold decUnsafe decSafe
  split
  · rfl
  · split
    · rename_i h
      rw [chunk_take w rows bs h, hL]
    · rfl

/-- Bool, encode -/
theorem C15_bool_encode_agree (vals : List Bool) (buf : Bytes) :
    boolEncUnsafe vals buf = boolEncSafe vals buf := by
  unfold boolEncUnsafe boolEncSafe
  split
  · rename_i h
    have : vals = [] := by cases vals <;> simp_all
    simp [this]
  · rfl

/-- Bool, decode into an empty column: same values and the same rejection of bytes other than 0/1 -/
theorem C15_bool_decode_agree (rows : Nat) (bs : Bytes) : boolDecUnsafe rows bs = boolDecSafe rows bs := by
  unfold boolDecUnsafe boolDecSafe
  split
  · rename_i h; subst h; simp [boolOfByte]
  · rfl

/-- UUID, encode: both variants byte-swap exactly the region they appended -/
theorem C15_uuid_encode_agree (vals : List Bytes) (buf : Bytes) : uuidEncUnsafe vals buf = uuidEncSafe vals buf := by
  unfold uuidEncUnsafe uuidEncSafe
  split
  · rename_i h
    have : vals = [] := by cases vals <;> simp_all
    simp [this, swap64]
  · rfl

/-- and the variants are the encoder the C01 theorems are about: a fixed-width column of
well-formed rows encodes as the concatenation of the little-endian images -/
theorem C15_matches_column_model (w : Nat) (k : FKind) (vals : List Nat) (buf : Bytes) :
    encCol (.fixed w k (vals.map (leBytes w))) buf = encSafe w vals buf := by
  unfold encSafe
  cases vals with
  | nil => simp [encCol]
  | cons v vs => simp [encCol]

example : encUnsafe le 2 [258, 3] [9] = [9, 2, 1, 3, 0] := by decide
example : boolDecUnsafe 3 [1, 2, 0] = .err .invalid := by decide
