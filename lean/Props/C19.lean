import Model.TypeStr
import Proofs.Infer
/-
C19 — Type inference is total and sound; type compatibility is reflexive and symmetric.

`Model.TypeStr.conflicts` is `ColumnType.Conflicts` over byte strings; `strings.TrimSpace`
and `strconv.Atoi` are parameters, so the relation theorems hold whatever they do.
-/
open Model Model.TypeStr

theorem C19.enumExc_comm (c b : Bytes) : enumExc c b = enumExc b c := by
  unfold enumExc
  generalize (base c == tEnum8) = a1
  generalize (b == tInt8) = a2
  generalize (base c == tEnum16) = a3
  generalize (b == tInt16) = a4
  generalize (base b == tEnum8) = b1
  generalize (c == tInt8) = b2
  generalize (base b == tEnum16) = b3
  generalize (c == tInt16) = b4
  cases a1 <;> cases a2 <;> cases a3 <;> cases a4 <;> cases b1 <;> cases b2 <;> cases b3 <;> cases b4 <;> rfl

theorem C19.eitherDecimal_comm (c b : Bytes) : eitherDecimal c b = eitherDecimal b c := by
  unfold eitherDecimal; exact Bool.or_comm _ _

/-- one unfolding of the recursion -/
theorem C19.conflictsF_succ (x : Ext) (fuel : Nat) (c b : Bytes) :
    conflictsF x (fuel + 1) c b =
      if c = b then false
      else if enumExc c b then false
      else if eitherDecimal c b then decimalDowncast x c != decimalDowncast x b
      else if base c ≠ base b then true
      else if isEnumBase (base c) then false
      else if normalizeCommas x c = normalizeCommas x b then false
      else if isWrapperBase (base c) then conflictsF x fuel (elem c) (elem b)
      else if isDateTimeBase (base c) then false
      else true := rfl

open C19

/-- symmetry at every recursion budget -/
theorem C19_conflictsF_symm (x : Ext) : ∀ (fuel : Nat) (c b : Bytes),
    conflictsF x fuel c b = conflictsF x fuel b c := by
  intro fuel
  induction fuel with
  | zero => intro c b; rfl
  | succ n ih =>
    intro c b
    rw [conflictsF_succ, conflictsF_succ, enumExc_comm b c, eitherDecimal_comm b c]
    by_cases h1 : c = b
    · subst h1; simp
    · have h1' : ¬ b = c := fun h => h1 h.symm
      simp only [h1, h1', ↓reduceIte]
      by_cases h2 : enumExc c b = true
      · simp only [h2, ↓reduceIte]
      · simp only [h2, Bool.false_eq_true, ↓reduceIte]
        by_cases h3 : eitherDecimal c b = true
        · simp only [h3, ↓reduceIte]
          exact bne_comm
        · simp only [h3, Bool.false_eq_true, ↓reduceIte]
          by_cases h4 : base c = base b
          · have h4' : base b = base c := h4.symm
            simp only [h4, ne_eq, not_true_eq_false, ↓reduceIte]
            by_cases h5 : isEnumBase (base b) = true
            · simp only [h5, ↓reduceIte]
            · simp only [h5, Bool.false_eq_true, ↓reduceIte]
              by_cases h6 : normalizeCommas x c = normalizeCommas x b
              · simp only [h6, ↓reduceIte]
              · have h6' : ¬ normalizeCommas x b = normalizeCommas x c := fun h => h6 h.symm
                simp only [h6, h6', ↓reduceIte]
                rw [ih (elem c) (elem b)]
          · have h4' : ¬ base b = base c := fun h => h4 h.symm
            simp only [h4, h4', ne_eq, not_false_eq_true, ↓reduceIte]

/-- **Symmetry** of the compatibility relation, for all byte strings and whatever
`TrimSpace` / `Atoi` do. -/
theorem C19_conflicts_symm (x : Ext) (c b : Bytes) : conflicts x c b = conflicts x b c := by
  unfold conflicts
  rw [Nat.add_comm b.length c.length]
  exact C19_conflictsF_symm x _ c b

/-- **Reflexivity**: a type never conflicts with itself. -/
theorem C19_conflicts_refl (x : Ext) (c : Bytes) : conflicts x c c = false := by
  unfold conflicts
  rw [conflictsF_succ]; simp

/-- documented equivalence: an enum is compatible with its underlying integer, both ways -/
theorem C19_enum8_int8 (x : Ext) (c : Bytes) (h : base c = tEnum8) :
    conflicts x c (tInt8) = false ∧ conflicts x (tInt8) c = false := by
  have h1 : conflicts x c (tInt8) = false := by
    unfold conflicts
    rw [conflictsF_succ]
    by_cases he : c = tInt8
    · simp [he]
    · simp [he, enumExc, h]
  exact ⟨h1, by rw [C19_conflicts_symm]; exact h1⟩

theorem C19_enum16_int16 (x : Ext) (c : Bytes) (h : base c = tEnum16) :
    conflicts x c (tInt16) = false ∧ conflicts x (tInt16) c = false := by
  have h1 : conflicts x c (tInt16) = false := by
    unfold conflicts
    rw [conflictsF_succ]
    by_cases he : c = tInt16
    · simp [he]
    · simp [he, enumExc, h]
  exact ⟨h1, by rw [C19_conflicts_symm]; exact h1⟩

/-- two enums of the same width are compatible whatever their tables -/
theorem C19_enum_tables (x : Ext) (c b : Bytes) (hc : base c = tEnum8 ∨ base c = tEnum16)
    (hb : base b = base c) : conflicts x c b = false := by
  unfold conflicts
  rw [conflictsF_succ]
  by_cases h1 : c = b
  · simp [h1]
  · simp only [h1, ↓reduceIte]
    by_cases h2 : enumExc c b = true
    · simp [h2]
    · simp only [h2, Bool.false_eq_true, ↓reduceIte]
      have hd : eitherDecimal c b = false := by
        unfold eitherDecimal
        rw [hb]
        rcases hc with h | h <;> rw [h] <;> decide
      simp only [hd, Bool.false_eq_true, ↓reduceIte, hb, ne_eq, not_true_eq_false]
      have he : isEnumBase (base c) = true := by
        unfold isEnumBase
        rcases hc with h | h <;> rw [h] <;> decide
      simp [he]

/-- spacing after commas is immaterial: types that normalise to the same string are compatible -/
theorem C19_comma_spacing (x : Ext) (c b : Bytes) (hb : base c = base b)
    (hn : normalizeCommas x c = normalizeCommas x b) (hd : eitherDecimal c b = false) :
    conflicts x c b = false := by
  unfold conflicts
  rw [conflictsF_succ]
  by_cases h1 : c = b
  · simp [h1]
  · simp only [h1, ↓reduceIte]
    by_cases h2 : enumExc c b = true
    · simp [h2]
    · simp only [h2, hd, Bool.false_eq_true, ↓reduceIte, hb, ne_eq, not_true_eq_false, hn]
      split <;> rfl

/-- timezone / precision parameters: DateTime and DateTime64 are compatible across parameters -/
theorem C19_datetime_params (x : Ext) (c b : Bytes)
    (hc : base c = tDateTime ∨ base c = tDateTime64) (hb : base b = base c) :
    conflicts x c b = false := by
  unfold conflicts
  rw [conflictsF_succ]
  by_cases h1 : c = b
  · simp [h1]
  · simp only [h1, ↓reduceIte]
    by_cases h2 : enumExc c b = true
    · simp [h2]
    · simp only [h2, Bool.false_eq_true, ↓reduceIte]
      have hd : eitherDecimal c b = false := by
        unfold eitherDecimal
        rw [hb]
        rcases hc with h | h <;> rw [h] <;> decide
      have he : isEnumBase (base c) = false := by
        unfold isEnumBase
        rcases hc with h | h <;> rw [h] <;> decide
      have hw : isWrapperBase (base c) = false := by
        unfold isWrapperBase
        rcases hc with h | h <;> rw [h] <;> decide
      have hdt : isDateTimeBase (base c) = true := by
        unfold isDateTimeBase
        rcases hc with h | h <;> rw [h] <;> decide
      simp only [hd, Bool.false_eq_true, ↓reduceIte, hb, ne_eq, not_true_eq_false, he, hw, hdt]
      split <;> rfl

/-- element-wise through Array / Nullable / LowCardinality: the wrappers conflict exactly when
their elements do (after the cheap equalities have been ruled out) -/
theorem C19_wrapper_elementwise (x : Ext) (fuel : Nat) (c b : Bytes) (hb : base c = base b)
    (hw : isWrapperBase (base c) = true) (h1 : c ≠ b) (h2 : enumExc c b = false)
    (hn : normalizeCommas x c ≠ normalizeCommas x b) :
    conflictsF x (fuel + 1) c b = conflictsF x fuel (elem c) (elem b) := by
  rw [conflictsF_succ]
  have hd : eitherDecimal c b = false := by
    unfold eitherDecimal isWrapperBase at *
    rw [← hb]
    have : isDecimal (base c) = false := by
      rcases Bool.or_eq_true _ _ |>.mp hw with h | h
      · rcases Bool.or_eq_true _ _ |>.mp h with h | h
        · rw [beq_iff_eq] at h; rw [h]; decide
        · rw [beq_iff_eq] at h; rw [h]; decide
      · rw [beq_iff_eq] at h; rw [h]; decide
    simp [this]
  have he : isEnumBase (base c) = false := by
    unfold isEnumBase isWrapperBase at *
    rcases Bool.or_eq_true _ _ |>.mp hw with h | h
    · rcases Bool.or_eq_true _ _ |>.mp h with h | h
      · rw [beq_iff_eq] at h; rw [h]; decide
      · rw [beq_iff_eq] at h; rw [h]; decide
    · rw [beq_iff_eq] at h; rw [h]; decide
  rw [hb] at he hw
  simp only [h1, h2, hd, Bool.false_eq_true, ↓reduceIte, hb, ne_eq, not_true_eq_false, he, hn, hw]

/-- different base types conflict (outside the enum/integer and decimal equivalences) -/
theorem C19_base_mismatch_conflicts (x : Ext) (c b : Bytes) (hb : base c ≠ base b)
    (h2 : enumExc c b = false) (hd : eitherDecimal c b = false) : conflicts x c b = true := by
  unfold conflicts
  rw [conflictsF_succ]
  have h1 : c ≠ b := fun h => hb (by rw [h])
  simp [h1, h2, hd, hb]

/-- decimal aliases by precision band, e.g. `Decimal(9, 2)` ~ `Decimal32` -/
theorem C19_decimal_alias (x : Ext) (c b : Bytes) (hd : eitherDecimal c b = true)
    (h2 : enumExc c b = false) (hdc : decimalDowncast x c = decimalDowncast x b) :
    conflicts x c b = false := by
  unfold conflicts
  rw [conflictsF_succ]
  by_cases h1 : c = b
  · simp [h1]
  · simp [h1, h2, hd, hdc]

/-! ### non-vacuity with the ASCII instance -/
example : conflicts asciiExt [68, 101, 99, 105, 109, 97, 108, 40, 57, 44, 32, 50, 41] (tDecimal32) = false := by decide
example : conflicts asciiExt [65, 114, 114, 97, 121, 40, 69, 110, 117, 109, 56, 40, 39, 97, 39, 61, 49, 41, 41] [65, 114, 114, 97, 121, 40, 73, 110, 116, 56, 41] = false := by decide
example : conflicts asciiExt [77, 97, 112, 40, 83, 116, 114, 105, 110, 103, 44, 85, 73, 110, 116, 56, 41] [77, 97, 112, 40, 83, 116, 114, 105, 110, 103, 44, 32, 85, 73, 110, 116, 56, 41] = false := by decide
example : conflicts asciiExt [65, 114, 114, 97, 121, 40, 83, 116, 114, 105, 110, 103, 41] [65, 114, 114, 97, 121, 40, 73, 110, 116, 56, 41] = true := by decide
example : base [69, 110, 117, 109, 56, 40, 39, 97, 39, 61, 49, 41] = tEnum8 := by decide

/-! ## Inference (`ColAuto.Infer`): soundness, boundedness -/
section Inference
open Model.Infer Proofs.Infer

/-- `Array(R)`, `Nullable(R)`, `LowCardinality(R)` is compatible with a request of the same base as soon
as `R` is compatible with the request's element -/
theorem C19_infer_wrapper (x : Ext) (name r t : Bytes)
    (hname : name = tArray ∨ name = tNullable ∨ name = tLowCardinality)
    (hbt : base t = name) (ih : conflicts x r (elem t) = false) :
    conflicts x (wrap name r) t = false := by
  have hnl : lparen ∉ name := by rcases hname with h | h | h <;> subst h <;> decide
  have hn0 : name ≠ [] := by rcases hname with h | h | h <;> subst h <;> decide
  have hbc : base (wrap name r) = name := base_wrap name r hnl hn0
  have hec : elem (wrap name r) = r := elem_wrap name r hnl hn0
  have hw : isWrapperBase name = true := by rcases hname with h | h | h <;> subst h <;> decide
  have hen : isEnumBase name = false := by rcases hname with h | h | h <;> subst h <;> decide
  have hdn : isDecimal name = false := by rcases hname with h | h | h <;> subst h <;> decide
  have hexc : enumExc (wrap name r) t = false := enumExc_false _ _ (by rw [hbc]; exact hen) (by rw [hbt]; exact hen)
  have hdec : eitherDecimal (wrap name r) t = false := by unfold eitherDecimal; rw [hbc, hbt, hdn]; rfl
  unfold conflicts
  rw [C19.conflictsF_succ]
  by_cases h1 : wrap name r = t
  · simp [h1]
  · simp only [h1, ↓reduceIte, hexc, hdec, Bool.false_eq_true, hbc, hbt, ne_eq, not_true_eq_false, hen, hw]
    by_cases hn : normalizeCommas x (wrap name r) = normalizeCommas x t
    · simp [hn]
    · simp only [hn, ↓reduceIte, hec]
      rw [← conflicts_eq_fuel x r (elem t) _ (by simp [wrap]; omega)]
      exact ih

/-- `Map(String, String)` (what the created column reports) against the request `Map(String,String)` -/
theorem C19_infer_mapStrStr (x : Ext) (hsp : ∀ s, x.trim (space :: s) = x.trim s) :
    conflicts x tMapStrStrRep tMapStrStrReq = false := by
  apply C19_comma_spacing
  · decide
  · have h1 : splitComma tMapStrStrRep = [tMap ++ [lparen] ++ tString, space :: (tString ++ [rparen])] := by decide
    have h2 : splitComma tMapStrStrReq = [tMap ++ [lparen] ++ tString, tString ++ [rparen]] := by decide
    unfold normalizeCommas
    rw [h1, h2]
    simp [hsp]
  · decide

theorem C19.reported_dateTime_base (l : Option Bytes) : base (reported (.dateTime l)) = tDateTime := by
  cases l with
  | none => decide
  | some l => exact base_wrap _ _ (by decide) (by decide)

theorem C19.reported_dateTime64_base (p : Nat) (l : Option Bytes) : base (reported (.dateTime64 p l)) = tDateTime64 := by
  cases l with
  | none => exact base_wrap _ _ (by decide) (by decide)
  | some l => exact base_wrap _ _ (by decide) (by decide)

theorem C19.downcast_alias (x : Ext) (a : Bytes) (ha : isDecimalN a = true) (hb : base a = a) :
    decimalDowncast x a = a := by
  unfold decimalDowncast
  rw [hb, ha]; rfl

/-- the Decimal branch: the band chosen by `Infer` is the band `Conflicts` reduces the request to -/
theorem C19_infer_decimal (x : IExt) (t : Bytes) (c : Col) (hb : base t = tDecimal)
    (h : inferDecimal x t = some c) : conflicts x.toExt (reported c) t = false := by
  have hexc : ∀ r, isEnumBase (base r) = false → enumExc r t = false := fun r hr =>
    enumExc_false _ _ hr (by rw [hb]; decide)
  have hed : ∀ r, eitherDecimal r t = true := fun r => by unfold eitherDecimal; rw [hb]; simp [isDecimal]
  unfold inferDecimal at h
  have hdt : ∀ (prec : Int), (if (cutComma (elem t)).isEmpty then some (10 : Int) else x.atoi (x.trim (cutComma (elem t)))) = some prec →
      decimalDowncast x.toExt t =
        if prec < 10 then tDecimal32 else if prec < 19 then tDecimal64 else if prec < 39 then tDecimal128
        else if prec < 77 then tDecimal256 else t := by
    intro prec hp
    unfold decimalDowncast
    rw [hb]
    simp only [show isDecimalN tDecimal = false by decide, Bool.false_eq_true, ↓reduceIte,
      show (tDecimal != tDecimal) = false by decide, hp]
  simp only at h
  split at h
  · exact absurd h (by simp)
  · rename_i prec hp
    have hd := hdt prec hp
    split at h
    · rename_i hr
      cases h
      exact C19_decimal_alias _ _ _ (hed _) (hexc _ (by decide)) (by rw [hd, C19.downcast_alias _ _ (by decide) (by decide)]; simp [hr.2]; rfl)
    · split at h
      · rename_i hr1 hr
        cases h
        have : ¬ prec < 10 := by omega
        exact C19_decimal_alias _ _ _ (hed _) (hexc _ (by decide)) (by rw [hd, C19.downcast_alias _ _ (by decide) (by decide)]; simp [this, hr.2]; rfl)
      · split at h
        · rename_i hr1 hr2 hr
          cases h
          have h10 : ¬ prec < 10 := by omega
          have h19 : ¬ prec < 19 := by omega
          exact C19_decimal_alias _ _ _ (hed _) (hexc _ (by decide)) (by rw [hd, C19.downcast_alias _ _ (by decide) (by decide)]; simp [h10, h19, hr.2]; rfl)
        · split at h
          · rename_i hr1 hr2 hr3 hr
            cases h
            have h10 : ¬ prec < 10 := by omega
            have h19 : ¬ prec < 19 := by omega
            have h39 : ¬ prec < 39 := by omega
            exact C19_decimal_alias _ _ _ (hed _) (hexc _ (by decide)) (by rw [hd, C19.downcast_alias _ _ (by decide) (by decide)]; simp [h10, h19, h39, hr.2]; rfl)
          · exact absurd h (by simp)

theorem C19.inferDateTime_base (x : IExt) (t : Bytes) (c : Col) (h : inferDateTime x t = some c) :
    base (reported c) = tDateTime := by
  unfold inferDateTime at h
  simp only at h
  split at h
  · cases h; exact C19.reported_dateTime_base _
  · cases hl : x.loadLoc (trimSet [quote] (elem t)) with
    | none => simp [hl] at h
    | some l => simp [hl] at h; subst h; exact C19.reported_dateTime_base _

theorem C19.inferDateTime64_base (x : IExt) (t : Bytes) (c : Col) (h : inferDateTime64 x t = some c) :
    base (reported c) = tDateTime64 := by
  unfold inferDateTime64 at h
  simp only at h
  split at h
  · exact absurd h (by simp)
  · split at h
    · exact absurd h (by simp)
    · split at h
      · exact absurd h (by simp)
      · split at h
        · cases hl : x.loadLoc (trimSet [quote, space] (cutByte comma (elem t)).2.1) with
          | none => simp [hl] at h
          | some l => simp [hl] at h; subst h; exact C19.reported_dateTime64_base _ _
        · cases h; exact C19.reported_dateTime64_base _ _

/-- the cases decided before `switch t.Base()` -/
theorem C19.inferExact_sound (x : IExt) (hsp : ∀ s, x.trim (space :: s) = x.trim s) (t : Bytes) (c : Col)
    (h : inferExact x t = some (some c)) (hex : c.exact = true) :
    conflicts x.toExt (reported c) t = false := by
  unfold inferExact at h
  by_cases h0 : generatedTypes.contains t = true
  · rw [if_pos h0] at h; cases h; exact C19_conflicts_refl _ _
  rw [if_neg h0] at h
  by_cases h1 : hasPrefix tInterval t = true
  · rw [if_pos h1] at h
    cases hl : intervalLookup x t with
    | none => simp [hl] at h
    | some canon =>
      simp [hl] at h; subst h
      have : t = canon := by simpa [Col.exact] using hex
      subst this; exact C19_conflicts_refl _ _
  rw [if_neg h1] at h
  by_cases h2 : t = tNothing
  · rw [if_pos h2] at h; cases h; subst h2; exact C19_conflicts_refl _ _
  rw [if_neg h2] at h
  by_cases h3 : t = tString
  · rw [if_pos h3] at h; cases h; subst h3; exact C19_conflicts_refl _ _
  rw [if_neg h3] at h
  by_cases h4 : t = tBool
  · rw [if_pos h4] at h; cases h; subst h4; exact C19_conflicts_refl _ _
  rw [if_neg h4] at h
  by_cases h5 : t = tDateTime
  · rw [if_pos h5] at h; cases h; subst h5; exact C19_conflicts_refl _ _
  rw [if_neg h5] at h
  by_cases h6 : t = tDate
  · rw [if_pos h6] at h; cases h; subst h6; exact C19_conflicts_refl _ _
  rw [if_neg h6] at h
  by_cases h7 : t = tMapStrStrReq
  · rw [if_pos h7] at h; cases h; subst h7; exact C19_infer_mapStrStr _ hsp
  rw [if_neg h7] at h
  by_cases h8 : t = tUUID
  · rw [if_pos h8] at h; cases h; subst h8; exact C19_conflicts_refl _ _
  rw [if_neg h8] at h
  exact absurd h (by simp)

/-- the non-recursive cases of `switch t.Base()` -/
theorem C19.inferBase_sound (x : IExt) (t : Bytes) (c : Col) (h : inferBase x t = some c) :
    conflicts x.toExt (reported c) t = false := by
  have hdecN : ∀ (a : Bytes), isDecimalN a = true → base a = a → base t = a → isEnumBase a = false →
      conflicts x.toExt a t = false := by
    intro a ha hba hbt hen
    apply C19_decimal_alias
    · unfold eitherDecimal; rw [hba]; simp [isDecimal, ha]
    · exact enumExc_false _ _ (by rw [hba]; exact hen) (by rw [hbt]; exact hen)
    · rw [C19.downcast_alias _ _ ha hba]
      unfold decimalDowncast; rw [hbt, ha]; rfl
  unfold inferBase at h
  simp only at h
  by_cases h0 : base t = tDateTime
  · rw [if_pos h0] at h
    have hc := C19.inferDateTime_base x t c h
    exact C19_datetime_params _ _ _ (Or.inl hc) (by rw [hc, h0])
  rw [if_neg h0] at h
  by_cases h1 : base t = tDecimal
  · rw [if_pos h1] at h; exact C19_infer_decimal x t c h1 h
  rw [if_neg h1] at h
  by_cases h2 : base t = tDecimal32
  · rw [if_pos h2] at h; cases h; exact hdecN _ (by decide) (by decide) h2 (by decide)
  rw [if_neg h2] at h
  by_cases h3 : base t = tDecimal64
  · rw [if_pos h3] at h; cases h; exact hdecN _ (by decide) (by decide) h3 (by decide)
  rw [if_neg h3] at h
  by_cases h4 : base t = tDecimal128
  · rw [if_pos h4] at h; cases h; exact hdecN _ (by decide) (by decide) h4 (by decide)
  rw [if_neg h4] at h
  by_cases h5 : base t = tDecimal256
  · rw [if_pos h5] at h; cases h; exact hdecN _ (by decide) (by decide) h5 (by decide)
  rw [if_neg h5] at h
  by_cases h6 : base t = tEnum8 ∨ base t = tEnum16
  · rw [if_pos h6] at h
    by_cases hp : enumParses x t = true
    · rw [if_pos hp] at h; cases h; exact C19_conflicts_refl _ _
    · rw [if_neg hp] at h; exact absurd h (by simp)
  rw [if_neg h6] at h
  by_cases h7 : base t = tDateTime64
  · rw [if_pos h7] at h
    have hc := C19.inferDateTime64_base x t c h
    exact C19_datetime_params _ _ _ (Or.inr hc) (by rw [hc, h7])
  rw [if_neg h7] at h
  exact absurd h (by simp)

/-- **Soundness of `ColAuto.Infer`** at every recursion budget: when inference succeeds, the type reported
by the created column does not conflict with the requested type.  For every request string, every
`strings.TrimSpace` that drops a leading space, every `strconv.Atoi`, `strings.ToLower`, `time.LoadLocation`.
`c.exact` excludes only requests that name an interval type in the wrong letter case (`IntervalSECOND`), which
`IntervalScaleString` accepts although no such ClickHouse type exists. -/
theorem C19_inferF_sound (x : IExt) (hsp : ∀ s, x.trim (space :: s) = x.trim s) :
    ∀ (fuel : Nat) (t : Bytes) (c : Col), inferF x fuel t = some c → c.exact = true →
      conflicts x.toExt (reported c) t = false := by
  intro fuel
  induction fuel with
  | zero => intro t c h; exact absurd h (by simp [inferF])
  | succ n ih =>
    intro t c h hex
    rw [inferF] at h
    cases he : inferExact x t with
    | some r =>
      rw [he] at h; simp only at h; subst h
      exact C19.inferExact_sound x hsp t c he hex
    | none =>
      rw [he] at h; simp only at h
      have hwrap : ∀ (name : Bytes) (w : Col → Option Col) (mk : Col → Col),
          (name = tArray ∨ name = tNullable ∨ name = tLowCardinality) → base t = name →
          (∀ c', reported (mk c') = wrap name (reported c')) → (∀ c', (mk c').exact = c'.exact) →
          (∀ c' r, w c' = some r → r = mk c') →
          (inferF x n (elem t)).bind w = some c → conflicts x.toExt (reported c) t = false := by
        intro name w mk hname hb hrep hexact hw hbind
        cases hi : inferF x n (elem t) with
        | none => rw [hi] at hbind; exact absurd hbind (by simp)
        | some c' =>
          rw [hi] at hbind
          have := hw c' c (by simpa using hbind)
          subst this
          rw [hrep]
          exact C19_infer_wrapper _ _ _ _ hname hb (ih _ _ hi (by rw [← hexact]; exact hex))
      by_cases h0 : base t = tArray
      · rw [if_pos h0] at h
        exact hwrap tArray wrapArr .arr (Or.inl rfl) h0 (fun _ => rfl) (fun _ => rfl)
          (fun c' r hr => by unfold wrapArr at hr; split at hr <;> simp_all) h
      rw [if_neg h0] at h
      by_cases h1 : base t = tNullable
      · rw [if_pos h1] at h
        exact hwrap tNullable wrapNullable .nullable (Or.inr (Or.inl rfl)) h1 (fun _ => rfl) (fun _ => rfl)
          (fun c' r hr => by unfold wrapNullable at hr; split at hr <;> simp_all) h
      rw [if_neg h1] at h
      by_cases h2 : base t = tLowCardinality
      · rw [if_pos h2] at h
        exact hwrap tLowCardinality wrapLC .lc (Or.inr (Or.inr rfl)) h2 (fun _ => rfl) (fun _ => rfl)
          (fun c' r hr => by unfold wrapLC at hr; split at hr <;> simp_all) h
      rw [if_neg h2] at h
      exact C19.inferBase_sound x t c h

/-- **C19, soundness of inference.** -/
theorem C19_infer_sound (x : IExt) (hsp : ∀ s, x.trim (space :: s) = x.trim s) (t : Bytes) (c : Col)
    (h : infer x t = some c) (hex : c.exact = true) : conflicts x.toExt (reported c) t = false :=
  C19_inferF_sound x hsp _ t c h hex

/-- the hypothesis on `TrimSpace` holds for the instance the driver runs -/
theorem C19_ascii_trim_space (s : Bytes) : trimAscii (space :: s) = trimAscii s := by
  unfold trimAscii
  have : isSpace space = true := by decide
  simp [List.dropWhile, this]

/-- **C19, inference is bounded**: `Infer` never nests its calls deeper than `maxInferDepth + 1`, whatever the
type string (a deeper type is an error, not a stack overflow). -/
theorem C19_infer_depth_bounded (x : IExt) : ∀ (fuel : Nat) (t : Bytes), callDepth x fuel t ≤ fuel := by
  intro fuel
  induction fuel with
  | zero => intro t; simp [callDepth]
  | succ n ih =>
    intro t
    rw [callDepth]
    split
    · omega
    · split
      · have := ih (elem t); omega
      · omega

/-- a type nested deeper than the bound is refused -/
theorem C19_infer_too_deep (x : IExt) (t : Bytes) : inferF x 0 t = none := rfl

/-- without `c.exact` soundness fails, on a string that is not a ClickHouse type: the lower-cased lookup of
`IntervalScaleString` accepts `IntervalSECOND` and the created column reports `IntervalSecond` -/
theorem C19_infer_case_folded_refuted :
    ∃ t c, infer (asciiIExt []) t = some c ∧ c.exact = false ∧
      conflicts (asciiIExt []).toExt (reported c) t = true :=
  ⟨tInterval ++ [83, 69, 67, 79, 78, 68], .interval (tInterval ++ [83, 69, 67, 79, 78, 68]) tIntervalSecond,
    by decide, by decide, by decide⟩

/-! non-vacuity: successful inferences of nested, parameterised types that satisfy the hypotheses -/
example : infer (asciiIExt []) (wrap tArray (wrap tNullable (wrap tDecimal [57, 44, 32, 50]))) =
    some (.arr (.nullable .dec32)) := by decide
example : (Col.arr (.nullable .dec32)).exact = true := rfl
example : infer (asciiIExt [([85, 84, 67], [85, 84, 67])]) (wrap tDateTime64 [51, 44, 32, 39, 85, 84, 67, 39]) =
    some (.dateTime64 3 (some [85, 84, 67])) := by decide
example : infer (asciiIExt []) tDecimal = some .dec64 ∧
    conflicts (asciiIExt []).toExt tDecimal64 tDecimal = false := by decide

end Inference
