import Model.TypeStr
/-
C19 — Type inference is total and sound; type compatibility is reflexive and symmetric.

`Model.TypeStr.conflicts` is `ColumnType.Conflicts` over byte strings; `strings.TrimSpace`
and `strconv.Atoi` are parameters, so the relation theorems hold whatever they do.
-/
open Model Model.TypeStr

theorem C19.enumExc_comm (c b : Bytes) : enumExc c b = enumExc b c := by
  unfold enumExc
  generalize (base c == tEnum8) = a1
  generalize (b == tInt8) = a2
  generalize (base c == tEnum16) = a3
  generalize (b == tInt16) = a4
  generalize (base b == tEnum8) = b1
  generalize (c == tInt8) = b2
  generalize (base b == tEnum16) = b3
  generalize (c == tInt16) = b4
  cases a1 <;> cases a2 <;> cases a3 <;> cases a4 <;> cases b1 <;> cases b2 <;> cases b3 <;> cases b4 <;> rfl

theorem C19.eitherDecimal_comm (c b : Bytes) : eitherDecimal c b = eitherDecimal b c := by
  unfold eitherDecimal; exact Bool.or_comm _ _

/-- one unfolding of the recursion -/
theorem C19.conflictsF_succ (x : Ext) (fuel : Nat) (c b : Bytes) :
    conflictsF x (fuel + 1) c b =
      if c = b then false
      else if enumExc c b then false
      else if eitherDecimal c b then decimalDowncast x c != decimalDowncast x b
      else if base c ≠ base b then true
      else if isEnumBase (base c) then false
      else if normalizeCommas x c = normalizeCommas x b then false
      else if isWrapperBase (base c) then conflictsF x fuel (elem c) (elem b)
      else if isDateTimeBase (base c) then false
      else true := rfl

open C19

/-- symmetry at every recursion budget -/
theorem C19_conflictsF_symm (x : Ext) : ∀ (fuel : Nat) (c b : Bytes),
    conflictsF x fuel c b = conflictsF x fuel b c := by
  intro fuel
  induction fuel with
  | zero => intro c b; rfl
  | succ n ih =>
    intro c b
    rw [conflictsF_succ, conflictsF_succ, enumExc_comm b c, eitherDecimal_comm b c]
    by_cases h1 : c = b
    · subst h1; simp
    · have h1' : ¬ b = c := fun h => h1 h.symm
      simp only [h1, h1', ↓reduceIte]
      by_cases h2 : enumExc c b = true
      · simp only [h2, ↓reduceIte]
      · simp only [h2, Bool.false_eq_true, ↓reduceIte]
        by_cases h3 : eitherDecimal c b = true
        · simp only [h3, ↓reduceIte]
          exact bne_comm
        · simp only [h3, Bool.false_eq_true, ↓reduceIte]
          by_cases h4 : base c = base b
          · have h4' : base b = base c := h4.symm
            simp only [h4, ne_eq, not_true_eq_false, ↓reduceIte]
            by_cases h5 : isEnumBase (base b) = true
            · simp only [h5, ↓reduceIte]
            · simp only [h5, Bool.false_eq_true, ↓reduceIte]
              by_cases h6 : normalizeCommas x c = normalizeCommas x b
              · simp only [h6, ↓reduceIte]
              · have h6' : ¬ normalizeCommas x b = normalizeCommas x c := fun h => h6 h.symm
                simp only [h6, h6', ↓reduceIte]
                rw [ih (elem c) (elem b)]
          · have h4' : ¬ base b = base c := fun h => h4 h.symm
            simp only [h4, h4', ne_eq, not_false_eq_true, ↓reduceIte]

/-- **Symmetry** of the compatibility relation, for all byte strings and whatever
`TrimSpace` / `Atoi` do. -/
theorem C19_conflicts_symm (x : Ext) (c b : Bytes) : conflicts x c b = conflicts x b c := by
  unfold conflicts
  rw [Nat.add_comm b.length c.length]
  exact C19_conflictsF_symm x _ c b

/-- **Reflexivity**: a type never conflicts with itself. -/
theorem C19_conflicts_refl (x : Ext) (c : Bytes) : conflicts x c c = false := by
  unfold conflicts
  rw [conflictsF_succ]; simp

/-- documented equivalence: an enum is compatible with its underlying integer, both ways -/
theorem C19_enum8_int8 (x : Ext) (c : Bytes) (h : base c = tEnum8) :
    conflicts x c (tInt8) = false ∧ conflicts x (tInt8) c = false := by
  have h1 : conflicts x c (tInt8) = false := by
    unfold conflicts
    rw [conflictsF_succ]
    by_cases he : c = tInt8
    · simp [he]
    · simp [he, enumExc, h]
  exact ⟨h1, by rw [C19_conflicts_symm]; exact h1⟩

theorem C19_enum16_int16 (x : Ext) (c : Bytes) (h : base c = tEnum16) :
    conflicts x c (tInt16) = false ∧ conflicts x (tInt16) c = false := by
  have h1 : conflicts x c (tInt16) = false := by
    unfold conflicts
    rw [conflictsF_succ]
    by_cases he : c = tInt16
    · simp [he]
    · simp [he, enumExc, h]
  exact ⟨h1, by rw [C19_conflicts_symm]; exact h1⟩

/-- two enums of the same width are compatible whatever their tables -/
theorem C19_enum_tables (x : Ext) (c b : Bytes) (hc : base c = tEnum8 ∨ base c = tEnum16)
    (hb : base b = base c) : conflicts x c b = false := by
  unfold conflicts
  rw [conflictsF_succ]
  by_cases h1 : c = b
  · simp [h1]
  · simp only [h1, ↓reduceIte]
    by_cases h2 : enumExc c b = true
    · simp [h2]
    · simp only [h2, Bool.false_eq_true, ↓reduceIte]
      have hd : eitherDecimal c b = false := by
        unfold eitherDecimal
        rw [hb]
        rcases hc with h | h <;> rw [h] <;> decide
      simp only [hd, Bool.false_eq_true, ↓reduceIte, hb, ne_eq, not_true_eq_false]
      have he : isEnumBase (base c) = true := by
        unfold isEnumBase
        rcases hc with h | h <;> rw [h] <;> decide
      simp [he]

/-- spacing after commas is immaterial: types that normalise to the same string are compatible -/
theorem C19_comma_spacing (x : Ext) (c b : Bytes) (hb : base c = base b)
    (hn : normalizeCommas x c = normalizeCommas x b) (hd : eitherDecimal c b = false) :
    conflicts x c b = false := by
  unfold conflicts
  rw [conflictsF_succ]
  by_cases h1 : c = b
  · simp [h1]
  · simp only [h1, ↓reduceIte]
    by_cases h2 : enumExc c b = true
    · simp [h2]
    · simp only [h2, hd, Bool.false_eq_true, ↓reduceIte, hb, ne_eq, not_true_eq_false, hn]
      split <;> rfl

/-- timezone / precision parameters: DateTime and DateTime64 are compatible across parameters -/
theorem C19_datetime_params (x : Ext) (c b : Bytes)
    (hc : base c = tDateTime ∨ base c = tDateTime64) (hb : base b = base c) :
    conflicts x c b = false := by
  unfold conflicts
  rw [conflictsF_succ]
  by_cases h1 : c = b
  · simp [h1]
  · simp only [h1, ↓reduceIte]
    by_cases h2 : enumExc c b = true
    · simp [h2]
    · simp only [h2, Bool.false_eq_true, ↓reduceIte]
      have hd : eitherDecimal c b = false := by
        unfold eitherDecimal
        rw [hb]
        rcases hc with h | h <;> rw [h] <;> decide
      have he : isEnumBase (base c) = false := by
        unfold isEnumBase
        rcases hc with h | h <;> rw [h] <;> decide
      have hw : isWrapperBase (base c) = false := by
        unfold isWrapperBase
        rcases hc with h | h <;> rw [h] <;> decide
      have hdt : isDateTimeBase (base c) = true := by
        unfold isDateTimeBase
        rcases hc with h | h <;> rw [h] <;> decide
      simp only [hd, Bool.false_eq_true, ↓reduceIte, hb, ne_eq, not_true_eq_false, he, hw, hdt]
      split <;> rfl

/-- element-wise through Array / Nullable / LowCardinality: the wrappers conflict exactly when
their elements do (after the cheap equalities have been ruled out) -/
theorem C19_wrapper_elementwise (x : Ext) (fuel : Nat) (c b : Bytes) (hb : base c = base b)
    (hw : isWrapperBase (base c) = true) (h1 : c ≠ b) (h2 : enumExc c b = false)
    (hn : normalizeCommas x c ≠ normalizeCommas x b) :
    conflictsF x (fuel + 1) c b = conflictsF x fuel (elem c) (elem b) := by
  rw [conflictsF_succ]
  have hd : eitherDecimal c b = false := by
    unfold eitherDecimal isWrapperBase at *
    rw [← hb]
    have : isDecimal (base c) = false := by
      rcases Bool.or_eq_true _ _ |>.mp hw with h | h
      · rcases Bool.or_eq_true _ _ |>.mp h with h | h
        · rw [beq_iff_eq] at h; rw [h]; decide
        · rw [beq_iff_eq] at h; rw [h]; decide
      · rw [beq_iff_eq] at h; rw [h]; decide
    simp [this]
  have he : isEnumBase (base c) = false := by
    unfold isEnumBase isWrapperBase at *
    rcases Bool.or_eq_true _ _ |>.mp hw with h | h
    · rcases Bool.or_eq_true _ _ |>.mp h with h | h
      · rw [beq_iff_eq] at h; rw [h]; decide
      · rw [beq_iff_eq] at h; rw [h]; decide
    · rw [beq_iff_eq] at h; rw [h]; decide
  rw [hb] at he hw
  simp only [h1, h2, hd, Bool.false_eq_true, ↓reduceIte, hb, ne_eq, not_true_eq_false, he, hn, hw]

/-- different base types conflict (outside the enum/integer and decimal equivalences) -/
theorem C19_base_mismatch_conflicts (x : Ext) (c b : Bytes) (hb : base c ≠ base b)
    (h2 : enumExc c b = false) (hd : eitherDecimal c b = false) : conflicts x c b = true := by
  unfold conflicts
  rw [conflictsF_succ]
  have h1 : c ≠ b := fun h => hb (by rw [h])
  simp [h1, h2, hd, hb]

/-- decimal aliases by precision band, e.g. `Decimal(9, 2)` ~ `Decimal32` -/
theorem C19_decimal_alias (x : Ext) (c b : Bytes) (hd : eitherDecimal c b = true)
    (h2 : enumExc c b = false) (hdc : decimalDowncast x c = decimalDowncast x b) :
    conflicts x c b = false := by
  unfold conflicts
  rw [conflictsF_succ]
  by_cases h1 : c = b
  · simp [h1]
  · simp [h1, h2, hd, hdc]

/-! ### non-vacuity with the ASCII instance -/
example : conflicts asciiExt [68, 101, 99, 105, 109, 97, 108, 40, 57, 44, 32, 50, 41] (tDecimal32) = false := by decide
example : conflicts asciiExt [65, 114, 114, 97, 121, 40, 69, 110, 117, 109, 56, 40, 39, 97, 39, 61, 49, 41, 41] [65, 114, 114, 97, 121, 40, 73, 110, 116, 56, 41] = false := by decide
example : conflicts asciiExt [77, 97, 112, 40, 83, 116, 114, 105, 110, 103, 44, 85, 73, 110, 116, 56, 41] [77, 97, 112, 40, 83, 116, 114, 105, 110, 103, 44, 32, 85, 73, 110, 116, 56, 41] = false := by decide
example : conflicts asciiExt [65, 114, 114, 97, 121, 40, 83, 116, 114, 105, 110, 103, 41] [65, 114, 114, 97, 121, 40, 73, 110, 116, 56, 41] = true := by decide
example : base [69, 110, 117, 109, 56, 40, 39, 97, 39, 61, 49, 41] = tEnum8 := by decide
