import Proofs.Send
import Props.C17
/-
C02 — Everything the client writes for a query is a well-formed packet sequence.

`Model.Send.stream` is the byte stream of `sendQuery` + `sendInput` (Query packet; external
data and its terminator; input blocks and their terminator; each block a Data packet with its
table name, in one checksummed frame iff compression is enabled).  `Model.Send.streamP` is the
parser a peer that knows the schemas runs on it.  The harness ties `stream` to the code by
comparing, byte for byte, what the real `Client.Do` writes with the pieces evaluated by the
model driver.
-/
open Model Model.Col Model.Msg Model.Parser Model.Block Model.Send Model.Frame

/-- **The stream parses as exactly the query, the external data and the input blocks, and
nothing is left** — for every revision, every compression setting and codec satisfying the
codec hypotheses, every well-formed Query record (C17), every external table and every list of
input blocks of one schema, with any bytes `r` following (so: also uniquely delimited). -/
theorem C02_stream_parses (s : Conn) (cfg : Cfg) (hcap : cfg.cap = none) (hf : FrameOK s (Block.blank s.v))
    (q : List FVal) (hq : C17.WFRecord cfg.strLim cfg.cap query s.v q)
    (ext : Option (Bytes × Blk)) (input : Option (List Blk)) (sc : Schema) (fuel : Nat) (r : Bytes)
    (hext : ∀ t b, ext = some (t, b) → strOK cfg.strLim cfg.cap t ∧ Blk.OK cfg s b)
    (hin : ∀ bs, input = some bs → bs.length < fuel ∧ ∀ b ∈ bs, Blk.OK cfg s b ∧ schemaOf b.cols = sc) :
    streamP s cfg (extSchema ext) (input.map fun _ => sc) fuel (stream s q ext input ++ r) =
      .ok (⟨q, seenExt s.v ext, seenInput s.v input⟩, r) :=
  stream_rt s cfg hcap hf q hq ext input sc fuel r hext hin

/-- **Block round trip**: header (BlockInfo from 51903 on, columns, rows), then per column name,
type, custom-serialization flag (from 54454 on), state prefix and body — decoded by a peer with
the schema into exactly the contents, consuming exactly the block. -/
theorem C02_block_roundtrip (cfg : Cfg) (hcap : cfg.cap = none) (v : Nat) (bk : Int) (cols : List BCol)
    (rows : Nat) (r : Bytes) (hb : -(2 ^ 31) ≤ bk ∧ bk < 2 ^ 31) (hn : cols.length ≤ 1000000)
    (hr : rows ≤ cfg.maxRows) (hr2 : rows < 2 ^ 63) (hne : cols ≠ [] ∨ rows ≠ 0)
    (h : ∀ c ∈ cols, BCol.OK cfg rows c) :
    Block.dec cfg v (schemaOf cols) (Block.enc v bk cols rows ++ r) =
      .ok (some (seenBucket v bk, rows, cols.map (seenCol rows)), r) :=
  block_rt cfg hcap v bk cols rows r hb hn hr hr2 hne h

/-- the empty block is recognised as the terminator under every schema, and consumed exactly -/
theorem C02_terminator (cfg : Cfg) (v : Nat) (schema : Schema) (r : Bytes) :
    Block.dec cfg v schema (Block.blank v ++ r) = .ok (none, r) :=
  blank_rt cfg v schema r

/-- **Framing of one block**: Data code, table name (from 50264 on), then the block — inside one
checksummed frame iff compression is enabled — parsed back and consumed exactly. -/
theorem C02_data_packet (s : Conn) (cfg : Cfg) (hcap : cfg.cap = none) (table : Bytes) (b : Blk) (r : Bytes)
    (ht : strOK cfg.strLim cfg.cap table) (h : Blk.OK cfg s b) :
    dataP s cfg (schemaOf b.cols) (dataPacket s table (b.bytes s.v) ++ r) =
      .ok ((if featIn 50264 s.v then table else [], some (b.seen s.v)), r) :=
  blk_packet_rt s cfg hcap table b r ht h

/-- compression on: the block travels as exactly one frame (checksum · method · sizes · body) -/
theorem C02_compressed_iff_framed (s : Conn) (table block : Bytes) :
    dataPacket s table block =
      [2] ++ (encodeD clientData s.v [.s table] ++
        (if s.compressed then s.codec.H (tail s.codec s.method block) ++ tail s.codec s.method block else block)) := by
  simp [dataPacket, frame]

/-! ### non-vacuity: a one-column, two-row UInt8 block, uncompressed, at the current revision -/
def C02.sampleBlk : Blk :=
  { cols := [{ name := [99], tyName := [85, 73, 110, 116, 56], col := .fixed 1 .plain [[1], [2]] }], rows := 2 }

def C02.plain : Conn := { v := 54460, compressed := false, codec := ⟨fun _ => [], fun _ x => x, fun _ _ _ => none⟩, method := 0 }

example : Blk.OK { strLim := none, cap := none } C02.plain C02.sampleBlk := by
  refine ⟨by decide, by simp [C02.sampleBlk], by decide, by decide, ?_, ?_⟩
  · intro c hc
    simp [C02.sampleBlk] at hc
    subst hc
    refine ⟨⟨by simp, by simp, by simp⟩, ⟨by simp, by simp, by simp⟩, fun _ => ⟨rfl, ?_⟩⟩
    simp [WF]
  · intro h; simp [C02.plain] at h

example : stream C02.plain C17.sampleQuery none (some [C02.sampleBlk]) ≠ [] := by simp [stream]
