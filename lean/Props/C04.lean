import Proofs.Do
/-
C04 — A failed query leaves the client closed or exactly at a packet boundary.

`Model.Do` runs the sender, the receiver and the cancel-watch of `Client.Do` as threads under
an arbitrary schedule, with write failures (inside a packet or not), cut streams, bad packets,
failing callbacks, server exceptions at any position and context cancellation at any step.
-/
open Model Model.Do

def C04.full : Cfg := {}

/-- **Closed, or both directions at a packet boundary with nothing stale queued** — for every
sender program, every server stream, every schedule of the three goroutines and the environment:
once all goroutines have returned and the query has failed. -/
theorem C04_closed_or_at_boundary (acts : List SendAct) (pkts : List SrvPkt) (sched : List Tid)
    (_hd : (run C04.full (init acts pkts) sched).allDone = true)
    (he : (run C04.full (init acts pkts) sched).err = true) :
    (finish C04.full (run C04.full (init acts pkts) sched)).closed = true ∨
      (finish C04.full (run C04.full (init acts pkts) sched)).atBoundary = true := by
  have hinv := inv_run C04.full rfl sched _ (inv_init acts pkts)
  generalize run C04.full (init acts pkts) sched = s at *
  obtain ⟨h1, _, h3⟩ := hinv
  unfold finish
  by_cases hc : s.closed = true
  · left; simp [hc]
  · simp only [he, hc, Bool.not_false, Bool.and_self, ↓reduceIte, C04.full]
    by_cases hx : s.gotExc = true
    · right
      have hw : s.wroteMid = false := by
        cases hwm : s.wroteMid with
        | false => rfl
        | true => exact absurd (h1 hwm) hc
      have hr : s.readMid = false := by
        cases hrm : s.readMid with
        | false => rfl
        | true => exact absurd ⟨hrm, hx⟩ h3
      simp [hx, St.atBoundary, hw, hr]
    · left; simp [hx]

/-- the only failure after which the client stays open is a server exception -/
theorem C04_open_only_after_exception (s : St) (he : s.err = true)
    (ho : (finish C04.full s).closed = false) : s.gotExc = true := by
  unfold finish at ho
  by_cases hc : s.closed = true
  · simp [he, hc] at ho
  · by_cases hx : s.gotExc = true
    · exact hx
    · simp [he, hc, hx, C04.full] at ho

/-- a write that stopped inside a packet has always closed the client, at every moment of every run -/
theorem C04_partial_write_closes (acts : List SendAct) (pkts : List SrvPkt) (sched : List Tid)
    (h : (run C04.full (init acts pkts) sched).wroteMid = true) :
    (run C04.full (init acts pkts) sched).closed = true :=
  (inv_run C04.full rfl sched _ (inv_init acts pkts)).wrote h

/-- **The call returns**: in every reachable state in which some goroutine has failed or the caller
has cancelled (the shared context is dead), a bounded number of further steps — the sender's
remaining actions, two steps of the receive loop (it notices the dead context at its next read
timeout), one of the cancel-watch — makes all three goroutines return, so `g.Wait()` returns. -/
theorem C04_returns_after_failure (acts : List SendAct) (pkts : List SrvPkt) (sched : List Tid)
    (hc : (run C04.full (init acts pkts) sched).ctxDead = true) (n : Nat)
    (hn : senderLen (run C04.full (init acts pkts) sched) ≤ n) :
    (run C04.full (init acts pkts) (sched ++ drain n)).allDone = true := by
  rw [run_append]
  exact returns_after_failure C04.full _ (left_run C04.full sched _ (left_init acts pkts)) hc n hn

/-! ### what the earlier designs allowed (each flag off, a concrete run) -/

/-- relying on the cancel-watch alone: it can check the group context before the failing receiver
has returned, and the client stays open with the reader inside a packet -/
theorem C04_watch_alone_refuted :
    ∃ acts pkts sched, let s := finish { joinClose := false } (run { joinClose := false } (init acts pkts) sched)
      s.allDone = true ∧ s.err = true ∧ s.closed = false ∧ s.atBoundary = false :=
  ⟨[], [.bad true], [.sender, .receiver, .watch, .receiver], by decide⟩

/-- a failing write that does not close: with a concurrent exception the client stays open inside a packet -/
theorem C04_write_error_refuted :
    ∃ acts pkts sched, let s := finish { closeOnWriteErr := false } (run { closeOnWriteErr := false } (init acts pkts) sched)
      s.allDone = true ∧ s.err = true ∧ s.closed = false ∧ s.atBoundary = false :=
  ⟨[.encode 5, .flush (some true)], [.exception], [.sender, .receiver, .sender, .receiver, .watch], by decide⟩

/-- pending output kept on a dead context: after an exception it is sent before the next request -/
theorem C04_stale_output_refuted :
    ∃ acts pkts sched, let s := finish { discardPending := false } (run { discardPending := false } (init acts pkts) sched)
      s.allDone = true ∧ s.err = true ∧ s.closed = false ∧ s.pending = 5 :=
  ⟨[.encode 5, .flush none], [.exception], [.sender, .receiver, .receiver, .sender, .watch], by decide⟩

/-! ### non-vacuity: the same three runs under the repaired design -/
example : let s := finish C04.full (run C04.full (init [] [.bad true]) [.sender, .receiver, .watch, .receiver])
    s.allDone = true ∧ s.err = true ∧ s.closed = true := by decide
example : let s := finish C04.full (run C04.full (init [.encode 5, .flush none] [.exception])
    [.sender, .receiver, .receiver, .sender, .watch])
    s.allDone = true ∧ s.err = true ∧ s.closed = false ∧ s.atBoundary = true := by decide
