import Model.Col
open Model Model.Col
theorem C01_placeholder : True := trivial
