import Proofs.Col
import Proofs.Block
/-
C01 — Block encode→decode is the identity for every column type and nesting.

`Model.Col` represents a column by the fields the Go types keep (offsets + data, nulls +
values, logical rows of LowCardinality / Enum columns …).  `WF` is what the public API
can build within the library's own limits.  Theorems are by structural induction over the
contents, so they cover every nesting depth and every value sequence.
-/
open Model Model.Col Model.Parser

/-- **Column round trip** (typed target = the column's own type): for every well-formed
column of every type and nesting, decoding what the encoder produced — followed by anything —
yields exactly the contents and leaves exactly what followed. -/
theorem C01_column_roundtrip (cfg : Cfg) (hcap : cfg.cap = none) (c : Col) (r : Bytes) (h : WF cfg c) :
    decCol cfg c.ty c.rows (encCol c [] ++ r) = .ok (c, r) :=
  col_rt cfg hcap c r h

/-- **Block round trip**: BlockInfo, column count, row count, then per column its name, type,
custom-serialization flag, state prefix and body — a decoder with typed targets of the same
schema yields exactly the columns and consumes exactly the block, at every revision. -/
theorem C01_block_roundtrip (cfg : Cfg) (hcap : cfg.cap = none) (v : Nat) (bk : Int) (cols : List Block.BCol)
    (rows : Nat) (r : Bytes) (hb : -(2 ^ 31) ≤ bk ∧ bk < 2 ^ 31) (hn : cols.length ≤ 1000000)
    (hr : rows ≤ cfg.maxRows) (hr2 : rows < 2 ^ 63) (hne : cols ≠ [] ∨ rows ≠ 0)
    (h : ∀ c ∈ cols, Block.BCol.OK cfg rows c) :
    Block.dec cfg v (Block.schemaOf cols) (Block.enc v bk cols rows ++ r) =
      .ok (some (Block.seenBucket v bk, rows, cols.map (Block.seenCol rows)), r) :=
  Block.block_rt cfg hcap v bk cols rows r hb hn hr hr2 hne h

/-- **The bytes produced for a column depend only on its contents, not on what the output buffer
already contained** — for the column body … -/
theorem C01_append_only (c : Col) (buf : Bytes) : encCol c buf = buf ++ encCol c [] :=
  encCol_append c buf

/-- … and for the state prefix. -/
theorem C01_state_append_only (c : Col) (buf : Bytes) : encState c buf = buf ++ encState c [] :=
  encState_append c buf

/-- the state prefix written for a column is accepted by the decoder of its type and consumed exactly -/
theorem C01_state_roundtrip : ∀ (c : Col) (r : Bytes), decState c.ty (encState c [] ++ r) = .ok ((), r) := by
  intro c
  induction c with
  | arr offs d ih => intro r; simp only [Col.ty, decState, encState]; exact ih r
  | nullable nulls v ih => intro r; simp only [Col.ty, decState, encState]; exact ih r
  | lc t rows =>
    intro r
    simp only [Col.ty, decState, encState, List.nil_append]
    rw [bind_ok' (le8_i64le 1 (by decide) r)]
    rfl
  | map offs k v ihk ihv =>
    intro r
    simp only [Col.ty, decState, encState]
    rw [encState_append v, List.append_assoc, bind_ok' (ihk _)]
    exact ihv r
  | pair a b iha ihb =>
    intro r
    simp only [Col.ty, decState, encState]
    rw [encState_append b, List.append_assoc, bind_ok' (iha _)]
    exact ihb r
  | versioned v c ih =>
    intro r
    simp only [Col.ty, decState, encState, List.nil_append]
    rw [encState_append c, List.append_assoc]
    have hle : Parser.le 8 (i64le v ++ (encState c [] ++ r)) = .ok (v % 256 ^ 8, encState c [] ++ r) := le_put_mod 8 v _
    rw [bind_ok' hle]
    have hg : (v % 256 ^ 8 == v % 18446744073709551616) = true := by
      have : (256 : Nat) ^ 8 = 18446744073709551616 := by decide
      rw [this]; simp
    rw [hg, bind_ok' (guard_true _ _)]
    exact ih r
  | _ => intro r; simp [Col.ty, decState, encState, Parser.pure]

/-- LowCardinality: whatever the dictionary order and key width `Prepare` chose, the decoder's
key lookup restores the logical rows -/
theorem C01_lowcardinality_dictionary (t : Ty) (rows : List Bytes)
    (hex : ∀ a ∈ rows, ∀ b ∈ rows, keyEq t a b = true → a = b) :
    lcLookup (lcPrepare t [] rows).1 (lcPrepare t [] rows).2 = some rows := by
  obtain ⟨_, _, _, _, _, h⟩ := lcPrepare_lookup t rows [] (by simpa using hex)
  exact h

/-- the full statement for LowCardinality(Float): it does not hold when a column mixes +0.0 and
−0.0 (known finding F20, replayed on the implementation on every run) … -/
def C01.lc_float_full : Prop :=
  ∀ rows : List Bytes, (∀ x ∈ rows, x.length = 8) →
    lcLookup (lcPrepare (.fixed 8 .float) [] rows).1 (lcPrepare (.fixed 8 .float) [] rows).2 = some rows

theorem C01_lc_float_full_refuted : ¬ C01.lc_float_full := by
  intro h
  have := h [[0, 0, 0, 0, 0, 0, 0, 0], [0, 0, 0, 0, 0, 0, 0, 128]] (by decide)
  revert this
  decide

/-! ### non-vacuity: Array(LowCardinality(String)) with an empty inner array, and a NaN-bearing
Map(String, Float64) -/
example : WF { strLim := none, cap := none }
    (.arr [1, 1, 3] (.lc .str [[97], [98], [97]])) := by
  simp [WF, sortedB, lastOff, Col.rows, scalarRowsOK, strRowsOK, Parser.limOK, keyEq]

example : WF { strLim := none, cap := none }
    (.map [2] (.str [[107], [108]]) (.fixed 8 .float [[0, 0, 0, 0, 0, 0, 248, 127], [0, 0, 0, 0, 0, 0, 0, 128]])) := by
  simp [WF, sortedB, lastOff, Col.rows, strRowsOK, Parser.limOK]
