import Proofs.ColSafe
import Proofs.MsgSafe
import Proofs.BlockSafe
/-
C06 — Hostile or corrupted input yields an error, never a crash or bad column.

The decoders of the model make the unchecked Go operations explicit: every `make` /
`append(make…)` is an `alloc` that fails with `oom` beyond the abstract machine's memory `cap`,
and a decode can end in `ok | err | panic | oom`.  Termination is Lean's own obligation: every
decoder is structurally recursive or bounded by the input length.
-/
open Model Model.Col Model.Parser

/-- **Never a panic, never an allocation beyond the library's caps**: with at least the memory
the caps allow (`maxRowsInBLock` rows of the widest element of the type, one string of the size
limit), decoding ANY byte string as a column of ANY type and nesting ends in a result or an error. -/
theorem C06_column_total (cfg : Cfg) (t : Ty) (h : AllocOK cfg (Ty.maxW t)) (rows : Nat) (hr : rows ≤ cfg.maxRows)
    (bs : Bytes) : (decCol cfg t rows bs).graceful = true :=
  decCol_graceful cfg t (Ty.maxW t) h (Nat.le_refl _) rows hr bs

/-- with unbounded memory the statement needs no premise about caps at all -/
theorem C06_column_never_panics (cfg : Cfg) (hcap : cfg.cap = none) (t : Ty) (rows : Nat) (hr : rows ≤ cfg.maxRows)
    (bs : Bytes) : (decCol cfg t rows bs).graceful = true :=
  decCol_graceful cfg t (Ty.maxW t) (by intro c hc; rw [hcap] at hc; cases hc) (Nat.le_refl _) rows hr bs

/-- **A successful decode is internally consistent**: the column reports the block's row count and
every row accessor works for every row index below it (offsets non-decreasing and inside the
data, values behind every null mark, dictionary keys in range). -/
theorem C06_consistent (cfg : Cfg) (hm : cfg.monotone = true) (t : Ty) (rows : Nat) (bs : Bytes) (c : Col) (r : Bytes)
    (h : decCol cfg t rows bs = .ok (c, r)) : c.rows = rows ∧ accessOK c = true :=
  decCol_consistent cfg hm t rows bs c r h

/-- **whole blocks**: any byte string decoded as a block against any schema within the caps, at any
revision — header, column headers, state prefixes and bodies — ends in a result or an error -/
theorem C06_block_total (cfg : Cfg) (v : Nat) (sc : Block.Schema) (hs : Msg.StrAllocOK cfg.strLim cfg.cap)
    (hsc : Block.SchemaOK cfg sc) (bs : Bytes) : (Block.dec cfg v sc bs).graceful = true :=
  Block.dec_graceful cfg v sc hs hsc bs

/-- protocol messages: any byte string, any revision, any descriptor -/
theorem C06_message_total (lim cap : Option Nat) (h : Msg.StrAllocOK lim cap) (d : List Msg.Field) (v : Nat)
    (bs : Bytes) : (Msg.decodeD lim cap d v bs).graceful = true :=
  Msg.decodeFrom_graceful lim cap h v d [] bs

/-- Without the offsets check (the pinned tree) consistency fails: offsets `[5, 2]` decode and
row 0 reaches beyond the data — finding F6, repaired.  The witness is an Array(UInt8) of 2 rows. -/
theorem C06_unchecked_offsets_refuted :
    ∃ c r, decCol { strLim := none, cap := none, monotone := false } (.arr (.fixed 1 .plain)) 2
        [5,0,0,0,0,0,0,0, 2,0,0,0,0,0,0,0, 7, 8] = .ok (c, r) ∧ accessOK c = false := by
  refine ⟨_, _, rfl, ?_⟩
  decide

/-- Without a string size limit a length field alone decides the allocation: 2^40 bytes are
requested from a 10-byte input — finding F7, repaired by the 1 GiB limit. -/
theorem C06_unbounded_string_refuted :
    decCol { strLim := none, cap := some (2 ^ 34) } .str 1 (putUvarint (2 ^ 40)) = .oom := by
  simp [decCol, decStrRows, bind_def, Parser.strLen]
  rw [show putUvarint (2 ^ 40) = putUvarint (2 ^ 40) ++ [] by simp, uvarint_put _ (by decide)]
  simp [Parser.guard, Parser.limOK, Parser.pure, Parser.alloc, bind_def]

example : AllocOK { strLim := some 1073741824, cap := some 12800000000 } 16 := by
  intro c hc
  simp at hc
  subst hc
  exact ⟨by decide, 1073741824, rfl, by decide⟩
