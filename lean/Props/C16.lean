import Model.Reuse
import Proofs.Col
/-
C16 — Reused columns carry nothing over.

For the columns whose Go representation *is* their logical contents (`Model.Col`), reuse is
trivial in the model.  The one that retains derived state is LowCardinality, modelled as a
state machine in `Model.Reuse`.
-/
open Model Model.Col Model.Reuse

/-- the loop of `Prepare` started from an empty map is the dictionary construction of the
column model, with the map mirroring the index -/
theorem C16.prepLoop_eq (t : Ty) : ∀ (xs : List Bytes) (kv : List (Bytes × Nat)) (index : List Bytes),
    kv = index.zipIdx →
    (prepLoop t xs kv index index.length).2.1 = (lcPrepare t index xs).1 ∧
    (prepLoop t xs kv index index.length).2.2 = (lcPrepare t index xs).2 := by
  intro xs
  induction xs with
  | nil => intro kv index _; simp [prepLoop, lcPrepare]
  | cons x xs ih =>
    intro kv index hkv
    have hfind : kvFind t x kv = findKey t x index := by
      subst hkv
      have : ∀ (l : List Bytes) (n : Nat), kvFind t x (l.zipIdx n) = (findKey t x l).map (· + n) := by
        intro l
        induction l with
        | nil => intro n; rfl
        | cons d ds ihl =>
          intro n
          simp only [List.zipIdx_cons, kvFind, findKey]
          split
          · simp
          · rw [ihl (n + 1)]
            cases findKey t x ds <;> simp; omega
      have h0 := this index 0
      simpa using h0
    simp only [prepLoop, lcPrepare, hfind]
    cases hf : findKey t x index with
    | some i =>
      have := ih kv index hkv
      simp only
      exact ⟨this.1, by rw [this.2]⟩
    | none =>
      have hkv' : kv ++ [(x, index.length)] = (index ++ [x]).zipIdx := by
        subst hkv
        simp [List.zipIdx_append]
      have := ih (kv ++ [(x, index.length)]) (index ++ [x]) hkv'
      simp only [List.length_append, List.length_cons, List.length_nil, Nat.zero_add] at this
      simp only
      exact ⟨this.1, by rw [this.2]⟩

/-- **Encoding reflects exactly the current logical contents**: for every history of appends,
resets, prepares and decodes, the library's encode path produces the bytes of a fresh column
holding the current `Values` — nothing of earlier dictionaries, keys or key widths survives. -/
theorem C16_encode_reflects_contents (t : Ty) (s0 : LC) (ops : List Op) :
    libEncode t (run t s0 ops) = encCol (.lc t (run t s0 ops).values) [] := by
  generalize run t s0 ops = s
  unfold libEncode encode prepare
  have h := C16.prepLoop_eq t s.values [] [] rfl
  simp only [List.length_nil] at h
  generalize hp : prepLoop t s.values [] [] 0 = p at h
  obtain ⟨kv, index, keys⟩ := p
  simp only at h ⊢
  simp only [encCol, List.nil_append]
  by_cases hv : s.values.isEmpty = true
  · simp [hv]
  · simp only [hv, Bool.false_eq_true, ↓reduceIte]
    generalize hq : lcPrepare t [] s.values = q at h
    obtain ⟨d, ks⟩ := q
    simp only at h
    rw [h.1, h.2]

/-- in particular: encoding again without reset re-sends the same rows … -/
theorem C16_reencode_same (t : Ty) (s : LC) :
    libEncode t (step t (prepare t s) .prepare) = libEncode t s := by
  have h1 := C16_encode_reflects_contents t (prepare t s) [.prepare]
  have h2 := C16_encode_reflects_contents t s []
  simp only [run, List.foldl_cons, List.foldl_nil] at h1 h2
  rw [h1, h2]
  simp [step, prepare]

/-- … and rows appended since appear exactly once with their own values: the contents after
appending are the old contents followed by the new row -/
theorem C16_append_values (t : Ty) (s : LC) (v : Bytes) :
    (step t s (.append v)).values = s.values ++ [v] := rfl

/-- `Reset` makes the column indistinguishable from a fresh one, whatever it held -/
theorem C16_reset_is_fresh (t : Ty) (s : LC) : step t s .reset = LC.fresh := rfl

/-- The pinned tree's `Prepare` did not have this property: `[a, b]`, prepare, append `c`,
prepare gave the keys `[0, 1, 0]` (the new value re-used key 0) — finding F2, repaired. -/
theorem C16_old_prepare_refuted :
    (prepareOld .str { (prepareOld .str { LC.fresh with values := [[97], [98]] }) with
        values := [[97], [98], [99]] }).keys = [0, 1, 0] := by decide

example : (prepare .str { (prepare .str { LC.fresh with values := [[97], [98]] }) with
        values := [[97], [98], [99]] }).keys = [0, 1, 2] := by decide
