import Proofs.Insert
import Proofs.InsertWire
/-
C09 — Streamed INSERT sends one faithful block per input round, then a terminator.

`Model.Insert.sendInput` generates the writer operations of `Client.sendInput` + the final flush
of `Do` for a callback history; zero-copy column bodies are chained by reference and resolved at
flush time (`Model.VecWriter`, the writer verified for C14), callbacks mutate caller memory.
The specification is the list of contents at the start of each round (`snapshots`).
-/
open Model Model.VecWriter Model.Insert

/-- **Faithful blocks, one terminator, stop on error** — for every callback history (append /
reset / overwrite: any new contents; nil / EOF with or without leftover rows / error), every
initial contents (zero rows or not), every mix of copying and zero-copy columns, every growth
policy and capacity of the staging buffer: the bytes the connection receives over all flushes are
exactly the blocks of the round snapshots in order, followed by the terminator iff no callback
failed; and nothing is left pending. -/
theorem C09_blocks_are_round_snapshots (grow : Nat → Nat) (cap : Nat) (mem0 : Mem)
    (c0 : Contents) (rounds : List Round) (blank : Bytes) (h : Agrees mem0 0 c0.cols) :
    received (run grow { w := W.init cap, mem := mem0, outs := [] } (sendInput true c0 rounds blank)).outs =
      expected c0 rounds blank := by
  rw [refines_spec_outs grow cap mem0]
  exact (sendInput_spec c0 rounds blank { pending := [], mem := mem0, outs := [] } rfl rfl h).1

/-- **On the wire** (uncompressed connection, where fixed-width column bodies are handed to the
socket by reference): for every initial block, every callback history given as concrete blocks,
every choice of which columns are zero-copy, the bytes the connection receives over all flushes are
the Data packets of the round snapshots in order and then exactly one terminator packet — i.e.
exactly the input part of the client stream of C02 — or, when a callback failed, the packets of the
snapshots so far and nothing more. -/
theorem C09_wire_is_input_part (grow : Nat → Nat) (cap : Nat) (mem0 : Mem) (s : Model.Send.Conn)
    (hc : s.compressed = false) (zc : Model.Block.BCol → Bool) (c0 : Model.Send.Blk) (rounds : List BRound)
    (h : Agrees mem0 0 (contentsOf s zc c0).cols) :
    received (run grow { w := W.init cap, mem := mem0, outs := [] }
        (sendInput true (contentsOf s zc c0) (rounds.map (toRound s zc))
          (Model.Send.dataPacket s [] (Model.Block.blank s.v)))).outs =
      Model.Send.inputPackets s (bSnapshots c0 rounds).1 ++
        (if (bSnapshots c0 rounds).2 then Model.Send.dataPacket s [] (Model.Block.blank s.v) else []) := by
  rw [C09_blocks_are_round_snapshots grow cap mem0 _ _ _ h]
  exact expected_is_input_part s hc zc c0 rounds

/-- … so a history without a failing callback produces `Send.inputPart` of its snapshots, the very
bytes `C02_stream_parses` parses back into the blocks -/
theorem C09_wire_ok_case (s : Model.Send.Conn) (c0 : Model.Send.Blk) (rounds : List BRound)
    (hok : (bSnapshots c0 rounds).2 = true) :
    Model.Send.inputPackets s (bSnapshots c0 rounds).1 ++
        (if (bSnapshots c0 rounds).2 then Model.Send.dataPacket s [] (Model.Block.blank s.v) else []) =
      Model.Send.inputPart s (some (bSnapshots c0 rounds).1) := by
  simp [hok, Model.Send.inputPart]

/-- per round: after encode → flush → callback, exactly that round's block has been delivered by
that flush, nothing is pending, and the callback's changes are not part of it -/
theorem C09_one_block_per_flush (c : Contents) (next : List ColMem) (s : Spec) (hp : s.pending = [])
    (h : Agrees s.mem 0 c.cols) :
    ((s.run (blockOps c ++ [.flush .acceptAll])).run (mutOps 0 next)).outs = s.outs ++ [(blockBytes c, false)] ∧
    ((s.run (blockOps c ++ [.flush .acceptAll])).run (mutOps 0 next)).pending = [] :=
  ⟨(run_head c next s hp h).2.1, (run_head c next s hp h).1⟩

/-- a callback error: the blocks sent are the snapshots up to the failing round and no terminator follows -/
theorem C09_error_stops (c : Contents) (r : Round) (rs : List Round) (h : r.ret = .err) (hrows : c.rows ≠ 0)
    (blank : Bytes) : expected c (r :: rs) blank = blockBytes c := by
  simp [expected, snapshots, hrows, snapsFrom, h, blocksBytes]

/-- end of input with rows still present: they are one more block, then the terminator -/
theorem C09_eof_tail (c : Contents) (r : Round) (rs : List Round) (h : r.ret = .eof) (hrows : c.rows ≠ 0)
    (ht : r.next.rows > 0) (blank : Bytes) :
    expected c (r :: rs) blank = blockBytes c ++ blockBytes r.next ++ blank := by
  simp [expected, snapshots, hrows, snapsFrom, h, ht, blocksBytes]

/-- the statement with the callback *before* the flush … -/
def C09.wrong_order : Prop :=
  ∀ (mem0 : Mem) (c0 : Contents) (rounds : List Round) (blank : Bytes), Agrees mem0 0 c0.cols →
    received (Spec.run { pending := [], mem := mem0, outs := [] } (sendInput false c0 rounds blank)).outs =
      expected c0 rounds blank

def C09.c0 : Contents := { pre := [2, 0], cols := [{ staged := [9], body := [1, 1], zeroCopy := true }], rows := 2 }
def C09.c1 : Contents := { pre := [2, 0], cols := [{ staged := [9], body := [7, 7], zeroCopy := true }], rows := 2 }
def C09.mem0 : Mem := fun i => if i = 0 then [1, 1] else []

/-- … is false: an in-place overwrite in the callback changes the bytes of the previous block -/
theorem C09_callback_before_flush_refuted : ¬ C09.wrong_order := by
  intro h
  have := h C09.mem0 C09.c0 [⟨C09.c1, .nil⟩, ⟨{ C09.c1 with cols := [{ staged := [9], body := [], zeroCopy := true }], rows := 0 }, .eof⟩]
    [0] (by simp [Agrees, C09.mem0, C09.c0])
  revert this
  decide

/-! ### non-vacuity: the same history in the right order -/
example : received (Spec.run { pending := [], mem := C09.mem0, outs := [] }
    (sendInput true C09.c0 [⟨C09.c1, .nil⟩, ⟨{ C09.c1 with cols := [{ staged := [9], body := [], zeroCopy := true }], rows := 0 }, .eof⟩] [0])).outs
    = [2, 0, 9, 1, 1, 2, 0, 9, 7, 7, 0] := by decide
