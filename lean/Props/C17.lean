import Proofs.Msg
/-
C17 — Protocol messages encode and decode symmetrically at every revision.

A message type is a descriptor (`Model.Msg.<name> : List Field`); `encodeD` / `decodeD` are
the generic interpreters the driver also runs against the Go code.  The theorems hold for
*every* descriptor, hence for the ten listed in `Model.Msg.messages`, at *every* revision
`v : Nat` — the revision enters only through `featIn threshold v`.
-/
open Model Model.Msg Model.Parser

/-- a record is well formed for descriptor `d` at revision `v`: one value per field, active
fields hold values in the range of their wire type (strings below the size limits, integers
in range, enum members, non-empty setting keys, valid span ids), fields that do not exist at
`v` hold their zero value -/
def C17.WFRecord (lim cap : Option Nat) (d : List Field) (v : Nat) (m : List FVal) : Prop :=
  WFFrom lim cap v d [] m

/-- **Round trip, exact consumption**: for every descriptor, revision, well-formed record and
trailing bytes, decoding the encoding yields the same record and leaves exactly the trailing bytes. -/
theorem C17_roundtrip (lim cap : Option Nat) (d : List Field) (v : Nat) (m : List FVal) (r : Bytes)
    (h : C17.WFRecord lim cap d v m) :
    decodeD lim cap d v (encodeD d v m ++ r) = .ok (m, r) := by
  have := rt_from lim cap v d [] m r h
  simpa [decodeD, encodeD] using this

/-- A field with gates and no condition is on the wire iff the revision reaches every gate — in
the encoder … -/
theorem C17_presence_encode (v : Nat) (full : List FVal) (f : Field) (fs : List Field) (x : FVal)
    (xs : List FVal) (hc : f.cond = none) :
    encodeFrom v full (f :: fs) (x :: xs) =
      (if f.gates.all (fun t => decide (t ≤ v)) then f.prim.bytes x else []) ++ encodeFrom v full fs xs := by
  simp [encodeFrom, Field.active, hc, featIn]

/-- … and consumed by the decoder under exactly the same condition (otherwise the field keeps
its zero value and no byte is read for it). -/
theorem C17_presence_decode (lim cap : Option Nat) (v : Nat) (f : Field) (fs : List Field)
    (acc : List FVal) (hc : f.cond = none) :
    decodeFrom lim cap v (f :: fs) acc =
      if f.gates.all (fun t => decide (t ≤ v)) then
        (do let x ← f.prim.dec lim cap; decodeFrom lim cap v fs (acc ++ [x]))
      else decodeFrom lim cap v fs (acc ++ [f.prim.default]) := by
  simp [decodeFrom, Field.active, hc, featIn]

/-- for a single-threshold field: present from exactly that revision on, absent before -/
theorem C17_threshold_exact (t v : Nat) : [t].all (fun t => decide (t ≤ v)) = true ↔ t ≤ v := by
  simp

/-- **Revision classes**: two revisions on the same side of every threshold used by the
descriptor give the same encoder and the same decoder — which is why one representative
per interval between consecutive thresholds is exhaustive. -/
theorem C17_revision_classes (lim cap : Option Nat) (d : List Field) (v v' : Nat)
    (h : ∀ f ∈ d, ∀ t ∈ f.gates, (t ≤ v ↔ t ≤ v')) :
    (∀ m, encodeD d v m = encodeD d v' m) ∧ decodeD lim cap d v = decodeD lim cap d v' := by
  have h' : ∀ f ∈ d, ∀ t ∈ f.gates, featIn t v = featIn t v' := by
    intro f hf t ht
    have := h f hf t ht
    simp only [featIn]
    by_cases h1 : t ≤ v <;> simp [h1, this.mp, (not_congr this).mp] <;> simp_all
  exact ⟨fun m => encodeFrom_congr v v' m d m h', decodeFrom_congr lim cap v v' d [] h'⟩

/-- decoders of all messages are stable under appended bytes (used by C07 / C08) -/
theorem C17_decode_stable (lim cap : Option Nat) (d : List Field) (v : Nat) :
    Stable (decodeD lim cap d v) := decodeFrom_stable lim cap v d []

/-! ### non-vacuity: concrete well-formed records of the listed messages -/

/-- ServerHello at a revision between FeatureDisplayName and FeatureVersionPatch: Patch absent -/
example : C17.WFRecord none none serverHello 54400
    [.s [67, 72], .n 22, .n 3, .n 54400, .s [85, 84, 67], .s [], .n 0] := by
  simp [C17.WFRecord, WFFrom, serverHello, Field.active, featIn, Prim.WF, strOK, Prim.default]

/-- Exception with a negative code -/
example : C17.WFRecord none none exception 54460 [.n (-7), .s [1], .s [], .s [2, 3], .b true] := by
  simp [C17.WFRecord, WFFrom, exception, Field.active, featIn, Prim.WF, strOK]

/-- a Query with client info, a setting, a span context and a parameter at the current revision -/
def C17.sampleQuery : List FVal :=
  [.s [113], .n 1, .s [], .s [], .s [], .n 5, .n 1, .s [], .s [], .s [99], .n 1, .n 2, .n 54460,
   .s [], .n 0, .n 3, .otel (some (List.replicate 16 7, List.replicate 8 9, [], 3)),
   .b true, .n 0, .n 0,
   .kv [([107], 1, [118])], .s [], .n 2, .n 1, .s [83], .kv [([112], 2, [49])]]

example : C17.WFRecord none none query 54460 C17.sampleQuery := by
  simp [C17.WFRecord, WFFrom, query, clientInfoAt, C17.sampleQuery, Field.active, featIn, Prim.WF,
    strOK, allZero]
