import Model.Transport
/-
C08 — Decoding is independent of how the transport segments the byte stream.

Every decoder consumes the stream through `io.ReadFull` / `ReadByte`.  The theorem: what
`ReadFull` returns — and what remains — is the same for EVERY schedule of read sizes (every
segmentation by the peer, every buffering in between): the first `n` bytes of the stream.
-/
open Model Model.Transport

theorem C08.readCount_bounds (avail want offer : Nat) (ha : 0 < avail) (hw : 0 < want) :
    0 < readCount avail want offer ∧ readCount avail want offer ≤ want ∧ readCount avail want offer ≤ avail := by
  unfold readCount; omega

/-- enough bytes: exactly the first `n`, for every schedule -/
theorem C08_readFull_any_schedule : ∀ (fuel n : Nat) (stream : Bytes) (sched : List Nat),
    n ≤ fuel → n ≤ stream.length →
    ∃ sched', readFull fuel stream sched n = some (stream.take n, stream.drop n, sched') := by
  intro fuel
  induction fuel with
  | zero =>
    intro n stream sched hf _
    have : n = 0 := by omega
    subst this
    exact ⟨sched, by simp [readFull]⟩
  | succ fuel ih =>
    intro n stream sched hf hl
    cases n with
    | zero => exact ⟨sched, by simp [readFull]⟩
    | succ n =>
      have hne : stream ≠ [] := by
        intro h; rw [h] at hl; simp at hl
      have hpos : 0 < stream.length := by
        cases stream with
        | nil => exact absurd rfl hne
        | cons _ _ => simp
      obtain ⟨h1, h2, h3⟩ := C08.readCount_bounds stream.length (n + 1) (sched.headD (n + 1)) hpos (by omega)
      generalize hk : readCount stream.length (n + 1) (sched.headD (n + 1)) = k at h1 h2 h3
      obtain ⟨sched', hrec⟩ := ih (n + 1 - k) (stream.drop k) sched.tail (by omega) (by simp; omega)
      refine ⟨sched', ?_⟩
      simp only [readFull, hne, ↓reduceIte, hk, hrec]
      congr 2
      · -- take k ++ take (n+1-k) (drop k) = take (n+1)
        have : stream.take (n + 1) = stream.take k ++ (stream.drop k).take (n + 1 - k) := by
          rw [← List.take_append_drop k (stream.take (n + 1)), List.take_take, Nat.min_eq_left h2, List.drop_take]
        rw [this]
      · rw [List.drop_drop]
        have hkn : k + (n + 1 - k) = n + 1 := by omega
        first | rw [hkn] | (rw [Nat.add_comm] at hkn; rw [hkn])

/-- too few bytes: end of stream is reported, for every schedule -/
theorem C08_readFull_short : ∀ (fuel n : Nat) (stream : Bytes) (sched : List Nat),
    stream.length < n → readFull fuel stream sched n = none := by
  intro fuel
  induction fuel with
  | zero =>
    intro n stream sched hl
    cases n with
    | zero => omega
    | succ n => simp [readFull]
  | succ fuel ih =>
    intro n stream sched hl
    cases n with
    | zero => omega
    | succ n =>
      by_cases hne : stream = []
      · simp [readFull, hne]
      · have hpos : 0 < stream.length := by
          cases stream with
          | nil => exact absurd rfl hne
          | cons _ _ => simp
        obtain ⟨h1, h2, h3⟩ := C08.readCount_bounds stream.length (n + 1) (sched.headD (n + 1)) hpos (by omega)
        generalize hk : readCount stream.length (n + 1) (sched.headD (n + 1)) = k at h1 h2 h3
        simp only [readFull, hne, ↓reduceIte, hk]
        rw [ih (n + 1 - k) (stream.drop k) sched.tail (by simp; omega)]

/-- **Corollary — segmentation independence**: two deliveries of the same stream, however
segmented, give `ReadFull` the same bytes and leave the same rest. -/
theorem C08_segmentation_independent (n : Nat) (stream : Bytes) (s1 s2 : List Nat) :
    (readFull n stream s1 n).map (fun r => (r.1, r.2.1)) = (readFull n stream s2 n).map (fun r => (r.1, r.2.1)) := by
  by_cases hl : n ≤ stream.length
  · obtain ⟨a, h1⟩ := C08_readFull_any_schedule n n stream s1 (Nat.le_refl _) hl
    obtain ⟨b, h2⟩ := C08_readFull_any_schedule n n stream s2 (Nat.le_refl _) hl
    rw [h1, h2]; rfl
  · rw [C08_readFull_short n n stream s1 (by omega), C08_readFull_short n n stream s2 (by omega)]

/-- read deadlines that expire between packets are skipped by the receive loop: the packets
processed are the same with and without idle timeouts -/
theorem C08_idle_timeouts_skipped (a b : List Item) :
    packetsOf (a ++ .idleTimeout :: b) = packetsOf (a ++ b) := by
  induction a with
  | nil => rfl
  | cons x xs ih => cases x <;> simp [packetsOf, ih]

example : (readFull 5 [1, 2, 3, 4, 5, 6] [1, 1, 1, 1, 1] 5).map (fun r => (r.1, r.2.1)) =
          (readFull 5 [1, 2, 3, 4, 5, 6] [2, 3] 5).map (fun r => (r.1, r.2.1)) := by decide
