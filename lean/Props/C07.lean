import Proofs.Col
import Proofs.Msg
import Proofs.Frame
import Proofs.Block
import Props.C01
import Props.C17
import Props.C05
import Proofs.PacketStable
/-
C07 — A truncated block or message is never accepted.

One generic theorem (`truncation_not_ok`): a decoder that is *stable* (an ok result is
unchanged when bytes are appended) and that consumes an encoding exactly cannot succeed on
a proper prefix of it.  Every decoder of the model is built from stable combinators, and the
round-trip theorems of C01/C17 say the encodings are consumed exactly.
-/
open Model Model.Parser

/-- the generic statement -/
theorem C07_generic {α} (dec : Parser α) (hs : Stable dec) (enc : Bytes) (x : α)
    (h : dec enc = .ok (x, [])) (p s : Bytes) (hsplit : enc = p ++ s) (hne : s ≠ []) :
    ∀ y r, dec p ≠ .ok (y, r) :=
  truncation_not_ok hs h hsplit hne

/-- **columns of every type and nesting**: no proper prefix of a column's encoding decodes
(cuts inside varints, strings, fixed-width values, offsets, dictionaries, keys …) -/
theorem C07_column (cfg : Col.Cfg) (hcap : cfg.cap = none) (c : Col.Col) (h : Col.WF cfg c)
    (p s : Bytes) (hsplit : Col.encCol c [] = p ++ s) (hne : s ≠ []) :
    ∀ y r, Col.decCol cfg c.ty c.rows p ≠ .ok (y, r) := by
  have hrt := Col.col_rt cfg hcap c [] h
  rw [List.append_nil] at hrt
  exact truncation_not_ok (Col.decCol_stable cfg c.ty c.rows) hrt hsplit hne

/-- state prefix followed by the column (what a block carries per column) -/
theorem C07_state_and_column (cfg : Col.Cfg) (hcap : cfg.cap = none) (c : Col.Col) (h : Col.WF cfg c)
    (p s : Bytes) (hsplit : Col.encState c [] ++ Col.encCol c [] = p ++ s) (hne : s ≠ []) :
    ∀ y r, (do Col.decState c.ty; Col.decCol cfg c.ty c.rows : Parser Col.Col) p ≠ .ok (y, r) := by
  have hstable : Stable (do Col.decState c.ty; Col.decCol cfg c.ty c.rows : Parser Col.Col) :=
    Stable.bind (Col.decState_stable c.ty) fun _ => Col.decCol_stable cfg c.ty c.rows
  have hrt : (do Col.decState c.ty; Col.decCol cfg c.ty c.rows : Parser Col.Col)
      (Col.encState c [] ++ Col.encCol c []) = .ok (c, []) := by
    rw [bind_ok' (C01_state_roundtrip c (Col.encCol c []))]
    have := Col.col_rt cfg hcap c [] h
    rwa [List.append_nil] at this
  exact truncation_not_ok hstable hrt hsplit hne

/-- **whole blocks**: header (BlockInfo, columns, rows), column headers, state prefixes and bodies —
no proper prefix of a block is accepted by a peer that knows the schema, at any revision -/
theorem C07_block (cfg : Col.Cfg) (hcap : cfg.cap = none) (v : Nat) (bk : Int) (cols : List Block.BCol)
    (rows : Nat) (hb : -(2 ^ 31) ≤ bk ∧ bk < 2 ^ 31) (hn : cols.length ≤ 1000000)
    (hr : rows ≤ cfg.maxRows) (hr2 : rows < 2 ^ 63) (hne0 : cols ≠ [] ∨ rows ≠ 0)
    (h : ∀ c ∈ cols, Block.BCol.OK cfg rows c)
    (p s : Bytes) (hsplit : Block.enc v bk cols rows = p ++ s) (hne : s ≠ []) :
    ∀ y r, Block.dec cfg v (Block.schemaOf cols) p ≠ .ok (y, r) := by
  have hrt := Block.block_rt cfg hcap v bk cols rows [] hb hn hr hr2 hne0 h
  rw [List.append_nil] at hrt
  exact truncation_not_ok (Block.dec_stable cfg v _) hrt hsplit hne

/-- **protocol messages at every revision**: no proper prefix of a message decodes -/
theorem C07_message (lim cap : Option Nat) (d : List Msg.Field) (v : Nat) (m : List Msg.FVal)
    (h : C17.WFRecord lim cap d v m) (p s : Bytes) (hsplit : Msg.encodeD d v m = p ++ s) (hne : s ≠ []) :
    ∀ y r, Msg.decodeD lim cap d v p ≠ .ok (y, r) := by
  have hrt := C17_roundtrip lim cap d v m [] h
  rw [List.append_nil] at hrt
  exact truncation_not_ok (C17_decode_stable lim cap d v) hrt hsplit hne

/-- **compressed stream**: a frame cut anywhere (inside the checksum, the header or the body)
is reported as a short read, never decoded -/
theorem C07_frame_truncated (c : Frame.Codec) (hc : c.WF) (m : Nat) (payload p s d0 : Bytes) (p0 : Nat)
    (hp : payload.length ≤ Frame.maxDataSize) (hb : (Frame.body c m payload).length ≤ Frame.maxBlockSize)
    (hsplit : Frame.frame c m payload = p ++ s) (hne : s ≠ []) :
    ∃ s', Frame.readBlock c { src := p, data := d0, pos := p0 } = (s', .error .eofHeader) ∨
          Frame.readBlock c { src := p, data := d0, pos := p0 } = (s', .error .eofBody) := by
  by_cases hshort : p.length < Frame.headerSize
  · exact ⟨_, Or.inl (Frame.readBlock_short c _ hshort)⟩
  · -- the prefix holds the whole (genuine) header and a proper prefix of the body
    have hflen : (Frame.frame c m payload).length = 25 + (Frame.body c m payload).length := by
      simp [Frame.frame, Frame.tail, hc.hlen, leBytes_length]; omega
    have hslen : 0 < s.length := by
      cases s with
      | nil => exact absurd rfl hne
      | cons _ _ => simp
    have hpl : p.length + s.length = 25 + (Frame.body c m payload).length := by
      rw [← hflen, hsplit, List.length_append]
    have h25 : 25 ≤ p.length := by simp [Frame.headerSize] at hshort; omega
    have hshape : Frame.frame c m payload =
        (c.H (Frame.tail c m payload) ++ Frame.methodByte m ::
          (leBytes 4 ((Frame.body c m payload).length + Frame.compressHeaderSize) ++ leBytes 4 payload.length))
          ++ Frame.body c m payload := by
      simp [Frame.frame, Frame.tail, List.append_assoc]
    have hhdr : (c.H (Frame.tail c m payload) ++ Frame.methodByte m ::
          (leBytes 4 ((Frame.body c m payload).length + Frame.compressHeaderSize) ++ leBytes 4 payload.length)).length = 25 := by
      simp [hc.hlen, leBytes_length]
    -- p = header ++ p' where p' is a proper prefix of the body
    obtain ⟨p', hp2, hbody⟩ : ∃ p', p = (c.H (Frame.tail c m payload) ++ Frame.methodByte m ::
          (leBytes 4 ((Frame.body c m payload).length + Frame.compressHeaderSize) ++ leBytes 4 payload.length)) ++ p' ∧
          Frame.body c m payload = p' ++ s := by
      have := hsplit
      rw [hshape] at this
      rcases List.append_eq_append_iff.mp this with ⟨a', h1, h2⟩ | ⟨c', h1, h2⟩
      · exact ⟨a', h1, h2⟩
      · -- header = p ++ c' with |p| ≥ 25 forces c' = []
        have hl := congrArg List.length h1
        rw [hhdr, List.length_append] at hl
        have : c' = [] := List.eq_nil_of_length_eq_zero (by omega)
        subst this
        exact ⟨[], by simpa using h1.symm, by simpa using h2.symm⟩
    have hp'len : p'.length < (Frame.body c m payload).length := by
      rw [hbody, List.length_append]; omega
    rw [hp2, Frame.readBlock_parts c _ _ _ _ _ _ _ (hc.hlen _) (leBytes_length _ _) (leBytes_length _ _)]
    unfold Frame.afterHeader
    have hmax : Frame.maxDataSize = 134217728 := rfl
    have hmaxb : Frame.maxBlockSize = 134217728 := rfl
    have h9 : Frame.compressHeaderSize = 9 := rfl
    have hv1 : leVal (leBytes 4 payload.length) = payload.length := by
      rw [leVal_leBytes]; apply Nat.mod_eq_of_lt; omega
    have hv2 : leVal (leBytes 4 ((Frame.body c m payload).length + Frame.compressHeaderSize)) =
        (Frame.body c m payload).length + Frame.compressHeaderSize := by
      rw [leVal_leBytes]; apply Nat.mod_eq_of_lt; omega
    simp only [hv1, hv2]
    have c1 : ¬ payload.length > Frame.maxDataSize := by omega
    have c2 : ¬ ((Frame.body c m payload).length + Frame.compressHeaderSize < Frame.compressHeaderSize ∨
        (Frame.body c m payload).length + Frame.compressHeaderSize - Frame.compressHeaderSize > Frame.maxBlockSize) := by omega
    have c3 : p'.length <
        (Frame.body c m payload).length + Frame.compressHeaderSize - Frame.compressHeaderSize := by
      omega
    rw [if_neg c1, if_neg c2, if_pos c3]
    exact ⟨_, Or.inr rfl⟩


open Model.ServerStream Model.Send Proofs.PacketStable in
/-- **whole server packets**: no proper prefix of an encoded server packet — a data / totals block (plain, or inside a
compressed frame), a ProfileEvents / Log block, Progress, Profile, TableColumns, an exception chain of any depth,
EndOfStream — is accepted by the client's packet parser (`packet()` + `decodeBlock` + `exception()`), at every
revision, with compression on or off.  From the packet round trip and the stability of the parser. -/
theorem C07_server_packet (cfg : Col.Cfg) (hcap : cfg.cap = none) (s : Conn) (sch : Schemas) (p : SPkt)
    (h : SPkt.OK cfg s sch p) (pre suf : Bytes) (hsplit : encPkt s p = pre ++ suf) (hne : suf ≠ []) :
    ∀ y r, decPkt s cfg sch pre ≠ .ok (y, r) := by
  have hrt := decPkt_rt cfg hcap s sch p [] h
  rw [List.append_nil] at hrt
  exact truncation_not_ok (decPkt_stable s cfg sch) hrt hsplit hne
