import Proofs.FrameRt
/-
C05 — Compressed frames round-trip and any corrupted frame is rejected.

All theorems are for every `Codec` (CityHash128 and the LZ4/LZ4HC/ZSTD codecs are
parameters) satisfying `Codec.WF` where a hypothesis about them is needed at all.
-/
open Model Model.Frame

/-- a frame sequence on the wire -/
def C05.stream (c : Codec) : List (Nat × Bytes) → Bytes
  | [] => []
  | (m, p) :: fs => frame c m p ++ C05.stream c fs

def C05.payloads : List (Nat × Bytes) → Bytes
  | [] => []
  | (_, p) :: fs => p ++ C05.payloads fs

/-- what the library itself guarantees to read back: method known, sizes within the reader's caps -/
def C05.WFFrames (c : Codec) (fs : List (Nat × Bytes)) : Prop :=
  ∀ f ∈ fs, f.1 ≤ 3 ∧ f.2.length ≤ maxDataSize ∧ (body c f.1 f.2).length ≤ maxBlockSize

/-- bytes not yet handed out: rest of the current frame's data, then the unread frames -/
def C05.logical (s : RState) (fs : List (Nat × Bytes)) : Bytes :=
  s.data.drop s.pos ++ C05.payloads fs

open C05

theorem C05.take_drop_len (l : Bytes) (k : Nat) : l.take k ++ l.drop (l.take k).length = l := by
  by_cases hk : k ≤ l.length
  · rw [List.length_take, Nat.min_eq_left hk, List.take_append_drop]
  · rw [List.take_of_length_le (by omega)]; simp

theorem C05_frame_is_compress_output (c : Codec) (m : Nat) (p : Bytes) (f : Bytes)
    (h : compress c m p = some f) : f = frame c m p := by
  unfold compress at h; split at h <;> simp_all [frame]

/-- One frame: `readBlock` on `frame ++ rest` yields exactly the payload and leaves `rest`,
whatever the reader held before. -/
theorem C05_frame_roundtrip (c : Codec) (hc : c.WF) (m : Nat) (hm : m ≤ 3) (payload rest d0 : Bytes)
    (p0 : Nat) (hp : payload.length ≤ maxDataSize) (hb : (body c m payload).length ≤ maxBlockSize) :
    readBlock c { src := frame c m payload ++ rest, data := d0, pos := p0 } =
      ({ src := rest, data := payload, pos := 0 }, .ok ()) :=
  frame_rt c hc m hm payload rest d0 p0 hp hb

/-- One `Read` on a reader positioned in a valid frame sequence: it succeeds with bytes that
are the next bytes of the logical stream, or — only when nothing is left — reports EOF. -/
theorem C05_read_valid (c : Codec) (hc : c.WF) (fs : List (Nat × Bytes)) (hfs : WFFrames c fs)
    (s : RState) (hsrc : s.src = stream c fs) (k : Nat) :
    (∃ out s' fs', read c s k = (s', .ok out) ∧ s'.src = stream c fs' ∧ WFFrames c fs' ∧
        out ++ logical s' fs' = logical s fs ∧
        (0 < k → logical s fs ≠ [] → out ≠ [] ∨ fs'.length < fs.length)) ∨
    (logical s fs = [] ∧ ∃ s', read c s k = (s', .error .eofHeader) ∧ s'.src = stream c [] ∧
        s'.data = [] ∧ s'.pos = 0) := by
  by_cases hpos : s.pos ≥ s.data.length
  · cases fs with
    | nil =>
      right
      have hsrc' : s.src = [] := by simpa [stream] using hsrc
      refine ⟨by simp [logical, payloads, List.drop_eq_nil_of_le hpos], ?_⟩
      have : readBlock c s = ({ src := [], data := [], pos := 0 }, .error .eofHeader) :=
        readBlock_short c s (by simp [hsrc', headerSize])
      exact ⟨{ src := [], data := [], pos := 0 }, by simp [Frame.read, hpos, this], rfl, rfl, rfl⟩
    | cons f fs' =>
      left
      obtain ⟨m, p⟩ := f
      have hf := hfs (m, p) (by simp)
      have hrb : readBlock c s = ({ src := stream c fs', data := p, pos := 0 }, .ok ()) := by
        have := C05_frame_roundtrip c hc m hf.1 p (stream c fs') s.data s.pos hf.2.1 hf.2.2
        have hs : s = { src := frame c m p ++ stream c fs', data := s.data, pos := s.pos } := by
          cases s; simp_all [stream]
        rw [hs]; exact this
      refine ⟨p.take k, { src := stream c fs', data := p, pos := (p.take k).length }, fs', ?_, rfl,
        fun g hg => hfs g (by simp [hg]), ?_, ?_⟩
      · simp [Frame.read, hpos, hrb]
      · simp only [logical, payloads, List.drop_eq_nil_of_le hpos, List.nil_append]
        rw [← List.append_assoc]
        congr 1
        exact C05.take_drop_len _ _
      · intro _ _; right; simp
  · left
    have hlt : s.pos < s.data.length := by omega
    refine ⟨(s.data.drop s.pos).take k, { s with pos := s.pos + ((s.data.drop s.pos).take k).length }, fs,
      ?_, hsrc, hfs, ?_, ?_⟩
    · simp [Frame.read, hpos]
    · simp only [logical]
      rw [← List.append_assoc]
      congr 1
      rw [← List.drop_drop]
      exact C05.take_drop_len _ _
    · intro hk _
      left
      intro h
      have := congrArg List.length h
      simp [List.length_take] at this
      omega

/-- **Round trip across any frame sequence and any read schedule** (sizes may be 0, reads
continue after EOF): the bytes handed out, in order, followed by what is still unread, are
exactly the payloads; the only error ever reported is EOF, and only once everything
has been delivered. -/
theorem C05_roundtrip (c : Codec) (hc : c.WF) (sizes : List Nat) :
    ∀ (fs : List (Nat × Bytes)) (_ : WFFrames c fs) (s : RState) (_ : s.src = stream c fs),
    ∃ fs', okBytes (readSeq c s sizes) ++ logical (finalState c s sizes) fs' = logical s fs ∧
      (∀ e, Except.error e ∈ readSeq c s sizes → e = .eofHeader ∧
        okBytes (readSeq c s sizes) = logical s fs) := by
  induction sizes with
  | nil => intro fs _ s _; exact ⟨fs, by simp [readSeq, okBytes, finalState], by simp [readSeq]⟩
  | cons k ks ih =>
    intro fs hfs s hsrc
    rcases C05_read_valid c hc fs hfs s hsrc k with ⟨out, s', fs', hr, hs', hfs', hlog, _⟩ | ⟨hnil, s', hr, hs', hd, hp⟩
    · obtain ⟨fs'', h1, h2⟩ := ih fs' hfs' s' hs'
      refine ⟨fs'', ?_, ?_⟩
      · simp only [readSeq, hr, okBytes, finalState]
        rw [List.append_assoc, h1, hlog]
      · intro e he
        simp only [readSeq, hr, List.mem_cons] at he
        rcases he with he | he
        · cases he
        · obtain ⟨h3, h4⟩ := h2 e he
          refine ⟨h3, ?_⟩
          simp only [readSeq, hr, okBytes]
          rw [h4, hlog]
    · obtain ⟨fs'', h1, h2⟩ := ih [] (by intro f hf; cases hf) s' hs'
      have hl' : logical s' [] = [] := by simp [logical, payloads, hd]
      refine ⟨fs'', ?_, ?_⟩
      · simp only [readSeq, hr, okBytes, finalState]
        rw [h1, hl', hnil]
      · intro e he
        simp only [readSeq, hr, List.mem_cons] at he
        rcases he with he | he
        · injection he with he; subst he
          refine ⟨rfl, ?_⟩
          simp only [readSeq, hr, okBytes]
          have : okBytes (readSeq c s' ks) ++ logical (finalState c s' ks) fs'' = [] := by rw [h1, hl']
          rw [hnil]
          exact (List.append_eq_nil_iff.mp this).1
        · obtain ⟨h3, h4⟩ := h2 e he
          refine ⟨h3, ?_⟩
          simp only [readSeq, hr, okBytes]
          rw [h4, hl', hnil]

/-- Corollary for a fresh reader: bytes handed out are a prefix of the payloads. -/
theorem C05_roundtrip_fresh (c : Codec) (hc : c.WF) (fs : List (Nat × Bytes)) (hfs : WFFrames c fs)
    (sizes : List Nat) :
    ∃ rest, okBytes (readSeq c (RState.init (stream c fs)) sizes) ++ rest = payloads fs := by
  obtain ⟨fs', h, _⟩ := C05_roundtrip c hc sizes fs hfs (RState.init (stream c fs)) rfl
  exact ⟨_, by simpa [logical, RState.init] using h⟩

/-- **Checksum mismatch ⇒ corruption error carrying both checksums** (length fields within
the limits and the body present): nothing is decoded, the buffer is left empty. Covers an
alteration of any of the 16 checksum bytes and — given `H tail' ≠ H tail` — of any hashed byte. -/
theorem C05_mismatch_is_corrupt (c : Codec) (cs : Bytes) (mb : UInt8) (rf df raw rest d0 : Bytes) (p0 : Nat)
    (hcs : cs.length = 16) (hrf : rf.length = 4) (hdf : df.length = 4)
    (hds : leVal df ≤ maxDataSize)
    (hrs : compressHeaderSize ≤ leVal rf ∧ leVal rf - compressHeaderSize ≤ maxBlockSize)
    (hraw : raw.length = leVal rf - compressHeaderSize)
    (hne : cs ≠ c.H (mb :: (rf ++ df) ++ raw)) :
    readBlock c { src := cs ++ mb :: (rf ++ df) ++ (raw ++ rest), data := d0, pos := p0 } =
      ({ src := rest, data := [], pos := 0 },
        .error (.corrupt (c.H (mb :: (rf ++ df) ++ raw)) cs (leVal rf - compressHeaderSize) (leVal df))) := by
  rw [readBlock_parts c _ _ _ _ _ _ _ hcs hrf hdf]
  unfold afterHeader
  have c1 : ¬ leVal df > maxDataSize := by omega
  have c2 : ¬ (leVal rf < compressHeaderSize ∨ leVal rf - compressHeaderSize > maxBlockSize) := by omega
  have c3 : ¬ (raw ++ rest).length < leVal rf - compressHeaderSize := by simp; omega
  simp only [c1, c2, c3, ↓reduceIte]
  have ht : (raw ++ rest).take (leVal rf - compressHeaderSize) = raw := by rw [← hraw]; simp
  have hd : (raw ++ rest).drop (leVal rf - compressHeaderSize) = rest := by rw [← hraw]; simp
  rw [ht, hd]
  simp only [hne, ne_eq, not_false_eq_true, ↓reduceIte]

/-- Altering the checksum of a library-produced frame (any of its 16 bytes, any new value). -/
theorem C05_checksum_altered (c : Codec) (m : Nat) (payload rest d0 cs' : Bytes) (p0 : Nat)
    (hp : payload.length ≤ maxDataSize) (hb : (body c m payload).length ≤ maxBlockSize)
    (hlen : cs'.length = 16) (halt : cs' ≠ c.H (tail c m payload)) :
    ∃ rs ds, readBlock c { src := cs' ++ tail c m payload ++ rest, data := d0, pos := p0 } =
      ({ src := rest, data := [], pos := 0 }, .error (.corrupt (c.H (tail c m payload)) cs' rs ds)) := by
  have hmax : maxDataSize = 134217728 := rfl
  have hmaxb : maxBlockSize = 134217728 := rfl
  have h9 : compressHeaderSize = 9 := rfl
  have hv1 : leVal (leBytes 4 payload.length) = payload.length := by
    rw [leVal_leBytes]; apply Nat.mod_eq_of_lt; omega
  have hv2 : leVal (leBytes 4 ((body c m payload).length + compressHeaderSize)) =
      (body c m payload).length + compressHeaderSize := by
    rw [leVal_leBytes]; apply Nat.mod_eq_of_lt; omega
  have ht : tail c m payload = methodByte m ::
      (leBytes 4 ((body c m payload).length + compressHeaderSize) ++ leBytes 4 payload.length)
        ++ body c m payload := by simp [tail, List.append_assoc]
  have := C05_mismatch_is_corrupt c cs' (methodByte m)
    (leBytes 4 ((body c m payload).length + compressHeaderSize)) (leBytes 4 payload.length)
    (body c m payload) rest d0 p0 hlen (leBytes_length _ _) (leBytes_length _ _)
    (by rw [hv1]; exact hp) (by rw [hv2]; omega) (by rw [hv2]; omega) (by rw [← ht]; exact halt)
  refine ⟨leVal (leBytes 4 ((body c m payload).length + compressHeaderSize)) - compressHeaderSize,
    leVal (leBytes 4 payload.length), ?_⟩
  rw [← ht] at this
  rw [← this]
  simp [ht, List.append_assoc]

/-- Altering hashed bytes (method byte or body) with the length fields intact: rejected as
corrupt with `actual = H tail'` and `reference = H tail`, provided the hash tells them apart. -/
theorem C05_body_altered (c : Codec) (hc : c.WF) (m : Nat) (payload rest d0 : Bytes) (p0 : Nat)
    (mb' : UInt8) (body' : Bytes)
    (hp : payload.length ≤ maxDataSize) (hb : (body c m payload).length ≤ maxBlockSize)
    (hlen : body'.length = (body c m payload).length)
    (hH : c.H (mb' :: (leBytes 4 ((body c m payload).length + compressHeaderSize) ++ leBytes 4 payload.length) ++ body')
          ≠ c.H (tail c m payload)) :
    ∃ rs ds, readBlock c { src := c.H (tail c m payload) ++ mb' ::
        (leBytes 4 ((body c m payload).length + compressHeaderSize) ++ leBytes 4 payload.length)
          ++ (body' ++ rest), data := d0, pos := p0 } =
      ({ src := rest, data := [], pos := 0 },
        .error (.corrupt (c.H (mb' :: (leBytes 4 ((body c m payload).length + compressHeaderSize) ++ leBytes 4 payload.length) ++ body'))
          (c.H (tail c m payload)) rs ds)) := by
  have hmax : maxDataSize = 134217728 := rfl
  have hmaxb : maxBlockSize = 134217728 := rfl
  have h9 : compressHeaderSize = 9 := rfl
  have hv1 : leVal (leBytes 4 payload.length) = payload.length := by
    rw [leVal_leBytes]; apply Nat.mod_eq_of_lt; omega
  have hv2 : leVal (leBytes 4 ((body c m payload).length + compressHeaderSize)) =
      (body c m payload).length + compressHeaderSize := by
    rw [leVal_leBytes]; apply Nat.mod_eq_of_lt; omega
  exact ⟨_, _, C05_mismatch_is_corrupt c _ mb' _ _ body' rest d0 p0 (hc.hlen _) (leBytes_length _ _)
    (leBytes_length _ _) (by rw [hv1]; exact hp) (by rw [hv2]; omega) (by rw [hv2]; omega)
    (fun h => hH h.symm)⟩

/-- **Size fields beyond the limits are rejected before anything else happens**: only the
25 header bytes are consumed, no body is read, nothing is decoded or kept. -/
theorem C05_limits_rejected (c : Codec) (cs : Bytes) (mb : UInt8) (rf df rest d0 : Bytes) (p0 : Nat)
    (hcs : cs.length = 16) (hrf : rf.length = 4) (hdf : df.length = 4)
    (hbad : leVal df > maxDataSize ∨ leVal rf < compressHeaderSize ∨
      leVal rf - compressHeaderSize > maxBlockSize) :
    ∃ e, readBlock c { src := cs ++ mb :: (rf ++ df) ++ rest, data := d0, pos := p0 } =
      ({ src := rest, data := [], pos := 0 }, .error e) ∧ (e = .dataSize ∨ e = .rawSize) := by
  rw [readBlock_parts c _ _ _ _ _ _ _ hcs hrf hdf]
  unfold afterHeader
  by_cases h1 : leVal df > maxDataSize
  · exact ⟨.dataSize, by simp [h1], Or.inl rfl⟩
  · have h2 : leVal rf < compressHeaderSize ∨ leVal rf - compressHeaderSize > maxBlockSize := by
      rcases hbad with h | h | h
      · exact absurd h h1
      · exact Or.inl h
      · exact Or.inr h
    exact ⟨.rawSize, by simp [h1, h2], Or.inr rfl⟩

/-- `d` is the decoded content of a frame that occurs in `orig` and whose checksum verified. -/
def C05.VerifiedIn (c : Codec) (orig d : Bytes) : Prop :=
  ∃ pre cs mb rf df raw post, orig = pre ++ (cs ++ mb :: (rf ++ df) ++ raw) ++ post ∧
    cs.length = 16 ∧ rf.length = 4 ∧ df.length = 4 ∧
    cs = c.H (mb :: (rf ++ df) ++ raw) ∧ decodeBody c mb raw (leVal df) = .ok d

/-- reader invariant: the unread input is a suffix of the original stream and the buffer is
empty or holds the content of a verified frame of that stream -/
def C05.Inv (c : Codec) (orig : Bytes) (s : RState) : Prop :=
  (∃ pre, orig = pre ++ s.src) ∧ (s.data = [] ∨ VerifiedIn c orig s.data)

theorem C05_readBlock_inv (c : Codec) (orig : Bytes) (s : RState) (h : Inv c orig s) :
    Inv c orig (readBlock c s).1 := by
  obtain ⟨⟨pre, hpre⟩, _⟩ := h
  by_cases hs : s.src.length < headerSize
  · rw [readBlock_short c s hs]; exact ⟨⟨orig, by simp⟩, Or.inl rfl⟩
  · obtain ⟨cs, mb, rf, df, rest, e1, h1, h2, h3⟩ := src_split s.src hs
    have : s = { src := cs ++ mb :: (rf ++ df) ++ rest, data := s.data, pos := s.pos } := by
      cases s; simp_all
    rw [this, readBlock_parts c cs mb rf df rest _ _ h1 h2 h3]
    unfold afterHeader
    simp only
    split
    · exact ⟨⟨pre ++ (cs ++ mb :: (rf ++ df)), by rw [hpre, e1]; simp⟩, Or.inl rfl⟩
    · split
      · exact ⟨⟨pre ++ (cs ++ mb :: (rf ++ df)), by rw [hpre, e1]; simp⟩, Or.inl rfl⟩
      · split
        · exact ⟨⟨orig, by simp⟩, Or.inl rfl⟩
        · have hsuf : orig = (pre ++ (cs ++ mb :: (rf ++ df)) ++
              rest.take (leVal rf - compressHeaderSize)) ++ rest.drop (leVal rf - compressHeaderSize) := by
            rw [hpre, e1]; simp [List.append_assoc]
          split
          · exact ⟨⟨_, hsuf⟩, Or.inl rfl⟩
          · rename_i hcs
            split
            · rename_i d hd
              refine ⟨⟨_, hsuf⟩, Or.inr ⟨pre, cs, mb, rf, df, rest.take (leVal rf - compressHeaderSize),
                rest.drop (leVal rf - compressHeaderSize), ?_, h1, h2, h3, ?_, hd⟩⟩
              · rw [hpre, e1]; simp [List.append_assoc]
              · exact Classical.not_not.mp hcs
            · exact ⟨⟨_, hsuf⟩, Or.inl rfl⟩

theorem C05_read_inv (c : Codec) (orig : Bytes) (s : RState) (k : Nat) (h : Inv c orig s) :
    Inv c orig (read c s k).1 ∧
    ∀ out, (read c s k).2 = .ok out → ∃ d, (d = [] ∨ VerifiedIn c orig d) ∧ ∃ i, out = (d.drop i).take k := by
  unfold Frame.read
  split
  · have hb := C05_readBlock_inv c orig s h
    split
    · rename_i s' hr
      rw [hr] at hb
      exact ⟨⟨hb.1, hb.2⟩, fun out ho => ⟨s'.data, hb.2, s'.pos, by simp at ho; exact ho.symm⟩⟩
    · rename_i s' e hr
      rw [hr] at hb
      exact ⟨hb, fun out ho => by cases ho⟩
  · exact ⟨⟨h.1, h.2⟩, fun out ho => ⟨s.data, h.2, s.pos, by simp at ho; exact ho.symm⟩⟩

/-- **The reader never hands out a byte that does not belong to a frame whose checksum
verified — for any stream whatsoever (hostile, altered, truncated), any read schedule,
including the reads that follow a failure.**  Every successful `Read` returns a slice of the
decoded content of a verified frame of the original stream. -/
theorem C05_only_verified_bytes (c : Codec) (orig : Bytes) (sizes : List Nat) :
    ∀ (s : RState), Inv c orig s →
    ∀ out, Except.ok out ∈ readSeq c s sizes →
      ∃ d, (d = [] ∨ VerifiedIn c orig d) ∧ ∃ i k, out = (d.drop i).take k := by
  induction sizes with
  | nil => intro s _ out h; cases h
  | cons k ks ih =>
    intro s hinv out h
    have hstep := C05_read_inv c orig s k hinv
    simp only [readSeq, List.mem_cons] at h
    rcases h with h | h
    · obtain ⟨d, hd, i, hi⟩ := hstep.2 out h.symm
      exact ⟨d, hd, i, k, hi⟩
    · exact ih _ hstep.1 out h

theorem C05_only_verified_bytes_fresh (c : Codec) (orig : Bytes) (sizes : List Nat) (out : Bytes)
    (h : Except.ok out ∈ readSeq c (RState.init orig) sizes) :
    ∃ d, (d = [] ∨ VerifiedIn c orig d) ∧ ∃ i k, out = (d.drop i).take k :=
  C05_only_verified_bytes c orig sizes (RState.init orig) ⟨⟨[], rfl⟩, Or.inl rfl⟩ out h

/-- After any failed `Read`, the buffer is empty: the next `Read` opens a new frame. -/
theorem C05_error_leaves_nothing (c : Codec) (s s' : RState) (k : Nat) (e : RErr)
    (h : read c s k = (s', .error e)) : s'.data = [] ∧ s'.pos = 0 :=
  read_error_clears c s k e s' h

/-! ### non-vacuity: a concrete codec satisfying `WF`, and concrete runs -/

/-- identity "compression", constant 16-byte "hash" of the length: satisfies `Codec.WF` -/
def C05.toyCodec : Codec where
  H x := List.replicate 15 0 ++ [UInt8.ofNat x.length]
  comp _ x := x
  decomp _ body n := if body.length = n then some body else none

theorem C05_toy_wf : C05.toyCodec.WF where
  hlen x := by simp [C05.toyCodec]
  rt m x _ _ := by simp [C05.toyCodec]
  dlen b body n d h := by
    simp only [C05.toyCodec] at h
    split at h
    · cases h; assumption
    · cases h

example : okBytes (readSeq C05.toyCodec (RState.init
    (C05.stream C05.toyCodec [(1, [1, 2, 3]), (0, []), (3, [9])])) [2, 0, 5, 1, 1, 1]) = [1, 2, 3, 9] := by
  decide

example : C05.WFFrames C05.toyCodec [(1, [1, 2, 3]), (0, []), (3, [9])] := by
  intro f hf
  simp at hf
  rcases hf with rfl | rfl | rfl <;> simp [body, C05.toyCodec, maxDataSize, maxBlockSize]
