import Model.Scalar
import Proofs.Wire
/-
C20 — Scalar conversions are exact over each type's whole documented range.

Go arithmetic is modelled in `Int` with explicit wrap-around (`wrapS`, `wrapU`) and truncated
division (`goDiv`, `goMod`); the theorems show that inside each documented range no wrap
happens and the result is the mathematically intended one.
-/
open Model Model.Scalar

/-! ### arithmetic helpers -/

theorem C20.wrapS64_id (x : Int) (h1 : -9223372036854775808 ≤ x) (h2 : x < 9223372036854775808) :
    wrapS 64 x = x := by
  unfold wrapS
  have e : (2 : Int) ^ 64 = 18446744073709551616 := by decide
  have e2 : (2 : Int) ^ (64 - 1) = 9223372036854775808 := by decide
  simp only [e, e2]
  split <;> omega

theorem C20.wrapS32_id (x : Int) (h1 : -2147483648 ≤ x) (h2 : x < 2147483648) : wrapS 32 x = x := by
  unfold wrapS
  have e : (2 : Int) ^ 32 = 4294967296 := by decide
  have e2 : (2 : Int) ^ (32 - 1) = 2147483648 := by decide
  simp only [e, e2]
  split <;> omega

theorem C20.wrapU16_id (x : Int) (h1 : 0 ≤ x) (h2 : x < 65536) : wrapU 16 x = x := by
  unfold wrapU
  have e : (2 : Int) ^ 16 = 65536 := by decide
  rw [e]; omega

theorem C20.wrapU32_id (x : Int) (h1 : 0 ≤ x) (h2 : x < 4294967296) : wrapU 32 x = x := by
  unfold wrapU
  have e : (2 : Int) ^ 32 = 4294967296 := by decide
  rw [e]; omega

theorem C20.wrapU64_id (x : Int) (h1 : 0 ≤ x) (h2 : x < 18446744073709551616) : wrapU 64 x = x := by
  unfold wrapU
  have e : (2 : Int) ^ 64 = 18446744073709551616 := by decide
  rw [e]; omega

open C20

/-! ### Date -/

/-- every one of the 65 536 dates survives `Date.Time` followed by `ToDate` -/
theorem C20_date_roundtrip (d : Int) (h0 : 0 ≤ d) (h1 : d < 65536) : toDate (dateTime d) = d := by
  have hw : wrapS 64 (secInDay * d) = 86400 * d := by
    rw [wrapS64_id] <;> simp only [secInDay] <;> omega
  have hz : (dateTime d).isZero = false := by
    simp only [dateTime, unixTime, hw, Time.isZero, zeroSec]
    have : ¬ (86400 * d = -62135596800) := by omega
    simp [this]
  unfold toDate
  rw [hz]
  simp only [dateTime, unixTime, hw, Bool.false_eq_true, ↓reduceIte]
  have h2 : wrapS 64 (86400 * d + 0 / 1000000000 + 0) = 86400 * d := by
    rw [wrapS64_id] <;> omega
  rw [h2]
  have h3 : goDiv (86400 * d) secInDay = d := by
    unfold goDiv secInDay; split <;> omega
  rw [h3, wrapU16_id d h0 h1]

/-- for any instant whose local calendar day lies in the Date range, `ToDate` is that day
(`(sec + offset) / 86400` is floor division) -/
theorem C20_date_day (t : Time) (hz : t.isZero = false)
    (h0 : 0 ≤ t.sec + t.offset) (h1 : t.sec + t.offset < 65536 * 86400) :
    toDate t = (t.sec + t.offset) / 86400 := by
  unfold toDate
  rw [hz]
  simp only [Bool.false_eq_true, ↓reduceIte]
  rw [wrapS64_id _ (by omega) (by omega)]
  have : goDiv (t.sec + t.offset) secInDay = (t.sec + t.offset) / 86400 := by
    unfold goDiv secInDay; simp [h0]
  rw [this, wrapU16_id _ (by omega) (by omega)]

/-! ### Date32: 1900-01-01 (day -25567) … 2299-12-31 (day 120529) -/

/-- **the calendar day in the value's own zone, also before 1970** -/
theorem C20_date32_day (t : Time) (hz : t.isZero = false)
    (h0 : -25567 * 86400 ≤ t.sec + t.offset) (h1 : t.sec + t.offset < 120530 * 86400) :
    toDate32 t = (t.sec + t.offset) / 86400 := by
  unfold toDate32
  rw [hz]
  simp only [Bool.false_eq_true, ↓reduceIte]
  rw [wrapS64_id _ (by omega) (by omega)]
  unfold goMod goDiv secInDay
  by_cases hs : 0 ≤ t.sec + t.offset
  · simp only [hs, ↓reduceIte]
    have : ¬ (t.sec + t.offset - 86400 * ((t.sec + t.offset) / 86400) < 0) := by omega
    simp only [this, ↓reduceIte]
    rw [wrapS32_id _ (by omega) (by omega)]
  · simp only [hs, ↓reduceIte]
    split
    · rw [wrapS32_id _ (by omega) (by omega)]; omega
    · rw [wrapS32_id _ (by omega) (by omega)]; omega

theorem C20_date32_roundtrip (d : Int) (h0 : -25567 ≤ d) (h1 : d ≤ 120529) :
    toDate32 (date32Time d) = d := by
  have hw : wrapS 64 (secInDay * d) = 86400 * d := by
    rw [wrapS64_id] <;> simp only [secInDay] <;> omega
  have hz : (date32Time d).isZero = false := by
    simp only [date32Time, unixTime, hw, Time.isZero, zeroSec]
    have : ¬ (86400 * d = -62135596800) := by omega
    simp [this]
  have := C20_date32_day (date32Time d) hz
    (by simp only [date32Time, unixTime, hw]; omega) (by simp only [date32Time, unixTime, hw]; omega)
  rw [this]
  simp only [date32Time, unixTime, hw]
  omega

/-! ### DateTime: all 2^32 seconds -/

theorem C20_datetime (t : Time) (hz : t.isZero = false) (h0 : 0 ≤ t.sec) (h1 : t.sec < 4294967296) :
    toDateTime t = t.sec := by
  unfold toDateTime
  rw [hz]
  simp only [Bool.false_eq_true, ↓reduceIte]
  exact wrapU32_id _ h0 h1

theorem C20_datetime_roundtrip (d off : Int) (h0 : 0 ≤ d) (h1 : d < 4294967296) :
    toDateTime (dateTimeTime d off) = d := by
  have hz : (dateTimeTime d off).isZero = false := by
    simp only [dateTimeTime, unixTime, Time.isZero, zeroSec]
    have : ¬ (d = -62135596800) := by omega
    simp [this]
  rw [C20_datetime _ hz] <;> simp only [dateTimeTime, unixTime] <;> omega

/-! ### DateTime64 -/

theorem C20_scale (p : Nat) (hp : p ≤ 9) : scale p = 10 ^ (9 - p) := by simp [scale, hp]

/-- **`ToDateTime64` is the truncated quotient of the true nanosecond instant by the scale**,
for every precision 0…9 and every instant whose value fits the column's 64 bits — no
nanosecond intermediate, hence also outside 1678…2262. -/
theorem C20_datetime64_value (t : Time) (p : Nat) (hp : p ≤ 9) (hz : t.isZero = false)
    (hn0 : 0 ≤ t.nsec) (hn1 : t.nsec < 1000000000)
    (hlo : -9223372036854775808 ≤ t.sec * 10 ^ p)
    (hhi : t.sec * 10 ^ p + 10 ^ p ≤ 9223372036854775807) :
    toDateTime64 t p = goDiv t.nanos (scale p) := by
  unfold toDateTime64
  rw [hz]
  simp only [Bool.false_eq_true, ↓reduceIte]
  have hcases : p = 0 ∨ p = 1 ∨ p = 2 ∨ p = 3 ∨ p = 4 ∨ p = 5 ∨ p = 6 ∨ p = 7 ∨ p = 8 ∨ p = 9 := by omega
  rcases hcases with rfl | rfl | rfl | rfl | rfl | rfl | rfl | rfl | rfl | rfl <;>
  · simp only [scale, Time.nanos, goDiv, goMod, Nat.reduceLeDiff, Nat.reduceSub, Int.reducePow,
      Int.reduceDiv, Int.reduceLE, Int.reduceNeg, ↓reduceIte] at hlo hhi ⊢
    simp only [hn0, ↓reduceIte]
    have hA : wrapS 64 (t.sec * _) = t.sec * _ := wrapS64_id _ (by omega) (by omega)
    rw [hA]
    rw [wrapS64_id _ (by omega) (by omega)]
    split
    · rename_i hneg
      rw [wrapS64_id _ (by omega) (by omega)]
      split <;> omega
    · rename_i hneg
      split <;> omega


/-- `DateTime64.Time(p)` denotes exactly `d · scale` nanoseconds, normalised, for every raw
value (no 64-bit nanosecond intermediate is formed) -/
theorem C20_datetime64_time (d : Int) (p : Nat) (off : Int) (hp : p ≤ 9)
    (hlo : -9223372036854775808 ≤ d) (hhi : d ≤ 9223372036854775807) :
    (dateTime64Time d p off).nanos = d * scale p ∧
    0 ≤ (dateTime64Time d p off).nsec ∧ (dateTime64Time d p off).nsec < 1000000000 := by
  have hcases : p = 0 ∨ p = 1 ∨ p = 2 ∨ p = 3 ∨ p = 4 ∨ p = 5 ∨ p = 6 ∨ p = 7 ∨ p = 8 ∨ p = 9 := by omega
  rcases hcases with rfl | rfl | rfl | rfl | rfl | rfl | rfl | rfl | rfl | rfl <;>
  · simp only [dateTime64Time, unixTime, scale, Time.nanos, goDiv, goMod, Nat.reduceLeDiff, Nat.reduceSub,
      Int.reducePow, Int.reduceDiv, Int.reduceLE, Int.reduceNeg, ↓reduceIte]
    by_cases hd : 0 ≤ d
    · simp only [hd, ↓reduceIte]
      rw [wrapS64_id _ (by omega) (by omega)]
      omega
    · simp only [hd, ↓reduceIte]
      rw [wrapS64_id _ (by omega) (by omega)]
      omega

/-- **time → DateTime64 → time is within the type's resolution, and exact when the instant is
representable**: the returned instant differs from the original by `|N mod scale| < scale`
nanoseconds, which is 0 when `scale` divides the nanosecond instant. -/
theorem C20_datetime64_resolution (t : Time) (p : Nat) (off : Int) (hp : p ≤ 9) (hz : t.isZero = false)
    (hn0 : 0 ≤ t.nsec) (hn1 : t.nsec < 1000000000)
    (hlo : -9223372036854775808 ≤ t.sec * 10 ^ p)
    (hhi : t.sec * 10 ^ p + 10 ^ p ≤ 9223372036854775807) :
    (dateTime64Time (toDateTime64 t p) p off).nanos = t.nanos - goMod t.nanos (scale p) := by
  have hv := C20_datetime64_value t p hp hz hn0 hn1 hlo hhi
  have hcases : p = 0 ∨ p = 1 ∨ p = 2 ∨ p = 3 ∨ p = 4 ∨ p = 5 ∨ p = 6 ∨ p = 7 ∨ p = 8 ∨ p = 9 := by omega
  have hrange : -9223372036854775808 ≤ toDateTime64 t p ∧ toDateTime64 t p ≤ 9223372036854775807 := by
    rw [hv]
    rcases hcases with rfl | rfl | rfl | rfl | rfl | rfl | rfl | rfl | rfl | rfl <;>
    · simp only [scale, Time.nanos, goDiv, Nat.reduceLeDiff, Nat.reduceSub, Int.reducePow, ↓reduceIte] at hlo hhi ⊢
      split <;> omega
  rw [(C20_datetime64_time _ p off hp hrange.1 hrange.2).1, hv]
  unfold goMod
  rcases hcases with rfl | rfl | rfl | rfl | rfl | rfl | rfl | rfl | rfl | rfl <;>
  · simp only [scale, Nat.reduceLeDiff, Nat.reduceSub, Int.reducePow, ↓reduceIte]
    omega

/-- the remainder is smaller than one unit of the precision -/
theorem C20_goMod_lt (n sc : Int) (hsc : 0 < sc) : -sc < goMod n sc ∧ goMod n sc < sc := by
  unfold goMod goDiv
  split
  · rename_i h
    have h1 := Int.emod_nonneg n (Int.ne_of_gt hsc)
    have h2 := Int.emod_lt_of_pos n hsc
    have h3 := Int.mul_ediv_add_emod n sc
    constructor <;> omega
  · rename_i h
    have h1 := Int.emod_nonneg (-n) (Int.ne_of_gt hsc)
    have h2 := Int.emod_lt_of_pos (-n) hsc
    have h3 := Int.mul_ediv_add_emod (-n) sc
    have h4 : sc * -(-n / sc) = -(sc * (-n / sc)) := by rw [Int.mul_neg]
    constructor <;> omega

/-- value → time → value is the identity for every raw value (round trip of the column contents) -/
theorem C20_datetime64_value_roundtrip (d : Int) (p : Nat) (off : Int) (hp : p ≤ 9)
    (hlo : -9223372036854775808 ≤ d) (hhi : d ≤ 9223372036854775807) :
    goDiv (dateTime64Time d p off).nanos (scale p) = d := by
  rw [(C20_datetime64_time d p off hp hlo hhi).1]
  have hcases : p = 0 ∨ p = 1 ∨ p = 2 ∨ p = 3 ∨ p = 4 ∨ p = 5 ∨ p = 6 ∨ p = 7 ∨ p = 8 ∨ p = 9 := by omega
  rcases hcases with rfl | rfl | rfl | rfl | rfl | rfl | rfl | rfl | rfl | rfl <;>
  · simp only [scale, goDiv, Nat.reduceLeDiff, Nat.reduceSub, Int.reducePow, ↓reduceIte]
    split <;> omega

/-! ### wide integers -/

theorem C20_int128_int (v : Int) (h0 : -9223372036854775808 ≤ v) (h1 : v < 9223372036854775808) :
    int128Int (int128FromInt v) = v := by
  unfold int128Int int128FromInt
  by_cases hv : v < 0
  · simp only [hv, ↓reduceIte, maxU64, or_true]
    unfold wrapS wrapU
    have e : (2 : Int) ^ 64 = 18446744073709551616 := by decide
    have e2 : (2 : Int) ^ (64 - 1) = 9223372036854775808 := by decide
    simp only [e, e2]
    split <;> omega
  · simp only [hv, ↓reduceIte, true_or]
    unfold wrapS wrapU
    have e : (2 : Int) ^ 64 = 18446744073709551616 := by decide
    have e2 : (2 : Int) ^ (64 - 1) = 9223372036854775808 := by decide
    simp only [e, e2]
    split <;> omega

/-- the 128 bits are the two's complement sign extension of `v` -/
theorem C20_int128_signed (v : Int) (h0 : -9223372036854775808 ≤ v) (h1 : v < 9223372036854775808) :
    (int128FromInt v).signed = v := by
  unfold U128.signed int128FromInt wrapS wrapU maxU64
  have e : (2 : Int) ^ 64 = 18446744073709551616 := by decide
  have e128 : (2 : Int) ^ 128 = 340282366920938463463374607431768211456 := by decide
  have e127 : (2 : Int) ^ (128 - 1) = 170141183460469231731687303715884105728 := by decide
  simp only [e, e128, e127]
  by_cases hv : v < 0
  · simp only [hv, ↓reduceIte]; split <;> omega
  · simp only [hv, ↓reduceIte]; split <;> omega

theorem C20_int128_uint64 (v : Int) (h0 : 0 ≤ v) (h1 : v < 18446744073709551616) :
    int128UInt64 (int128FromUInt64 v) = v := by
  unfold int128UInt64 int128FromUInt64 wrapS wrapU
  have e : (2 : Int) ^ 64 = 18446744073709551616 := by decide
  have e2 : (2 : Int) ^ (64 - 1) = 9223372036854775808 := by decide
  simp only [e, e2, true_or, ↓reduceIte]
  split <;> omega

/-- `UInt128FromInt(v).Int() = v` for non-negative `v` (a negative `v` is not representable) -/
theorem C20_uint128_int (v : Int) (h0 : 0 ≤ v) (h1 : v < 9223372036854775808) :
    uint128Int (int128FromInt v) = v := by
  unfold uint128Int uint128UInt64 int128FromInt wrapS wrapU
  have e : (2 : Int) ^ 64 = 18446744073709551616 := by decide
  have e2 : (2 : Int) ^ (64 - 1) = 9223372036854775808 := by decide
  have hv : ¬ v < 0 := by omega
  simp only [hv, ↓reduceIte, e, e2]
  have : ¬ ((0 : Int) > 0) := by omega
  simp only [this, ↓reduceIte]
  split <;> omega

theorem C20_int256_signed (v : Int) (h0 : -9223372036854775808 ≤ v) (h1 : v < 9223372036854775808) :
    (int256FromInt v).signed = v := by
  unfold U256.signed int256FromInt U128.unsigned wrapS wrapU maxU64
  have e : (2 : Int) ^ 64 = 18446744073709551616 := by decide
  have e128 : (2 : Int) ^ 128 = 340282366920938463463374607431768211456 := by decide
  have e256 : (2 : Int) ^ 256 =
      115792089237316195423570985008687907853269984665640564039457584007913129639936 := by decide
  have e255 : (2 : Int) ^ (256 - 1) =
      57896044618658097711785492504343953926634992332820282019728792003956564819968 := by decide
  simp only [e, e128, e256, e255]
  by_cases hv : v < 0
  · simp only [hv, ↓reduceIte]; split <;> omega
  · simp only [hv, ↓reduceIte]; split <;> omega

/-- the 16-byte wire image inverts -/
theorem C20_bin128_roundtrip (v : U128) (h0 : 0 ≤ v.low) (h1 : v.low < 18446744073709551616)
    (h2 : 0 ≤ v.high) (h3 : v.high < 18446744073709551616) : binU128 (binPutU128 v) = v := by
  unfold binU128 binPutU128
  have hl : (leBytes 8 v.low.toNat).length = 8 := leBytes_length _ _
  have t1 : (leBytes 8 v.low.toNat ++ leBytes 8 v.high.toNat).take 8 = leBytes 8 v.low.toNat :=
    List.take_left' hl
  have t2 : ((leBytes 8 v.low.toNat ++ leBytes 8 v.high.toNat).drop 8).take 8 = leBytes 8 v.high.toNat := by
    rw [List.drop_left' hl, List.take_of_length_le (by rw [leBytes_length]; omega)]
  rw [t1, t2, leVal_leBytes, leVal_leBytes]
  have e : (256 : Nat) ^ 8 = 18446744073709551616 := by decide
  rw [e]
  cases v with
  | mk lo hi =>
    simp only at h0 h1 h2 h3 ⊢
    congr 1 <;> omega

/-! ### IPv4: all 2^32 values -/

theorem C20_ipv4_roundtrip (v : Nat) (h : v < 4294967296) : toIPv4 (ipv4ToIP v) = v := by
  unfold toIPv4 ipv4ToIP beVal beBytes
  rw [List.reverse_reverse, leVal_leBytes]
  have e : (256 : Nat) ^ 4 = 4294967296 := by decide
  rw [e]; omega

/-! ### Interval.Add -/

/-- the full statement of the interval clause -/
def C20.interval_full : Prop := ∀ s n, intervalAdd s n = intervalSpec s n

/-- … does not hold of the code as it stands: a quarter is added as four months
(known finding F10, replayed on the implementation on every run) -/
theorem C20_interval_full_refuted : ¬ C20.interval_full := by
  intro h
  have := h .quarter 1
  simp [intervalAdd, intervalSpec] at this

/-- every other scale moves the time by the stated amount -/
theorem C20_interval_partial (s : IntervalScale) (n : Int) (h : s ≠ .quarter) :
    intervalAdd s n = intervalSpec s n := by
  cases s <;> first | rfl | exact absurd rfl h

/-! ### non-vacuity -/
example : toDate32 ⟨-43200, 0, 0⟩ = -1 := by decide          -- 1969-12-31 12:00 UTC is day −1
example : (⟨-43200, 0, 0⟩ : Time).isZero = false ∧ -25567 * 86400 ≤ (-43200 : Int) + 0 := by decide
example : toDateTime64 ⟨9783072000, 0, 0⟩ 3 = 9783072000000 := by decide   -- 2280-01-01 at ms
example : dateTime64Time 9783072000000 3 0 = ⟨9783072000, 0, 0⟩ := by decide
