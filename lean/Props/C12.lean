import Model.Ownership
/-
C12 — No data race inside the library under any permitted concurrent use (the part that is logic).

A data race needs two goroutines, one component, at least one mutation and no common lock.
`raceFree` is checked by the kernel on the access facts regenerated from the source
(`Tie.C12`); the theorems here say what that check means.
-/
open Model.Ownership

/-- **What the table check establishes**: for any two accesses of the table by different
goroutines to the same component, either neither mutates, or both are under a lock, or the
component is safe for concurrent use. -/
theorem C12_race_free_meaning (safe : Nat → Bool) (as : List Access) (h : raceFree safe as = true)
    (a b : Access) (ha : a ∈ as) (hb : b ∈ as) (hg : a.1 ≠ b.1) (hc : a.2.1 = b.2.1) :
    (a.2.2.1 = false ∧ b.2.2.1 = false) ∨ (a.2.2.2 = true ∧ b.2.2.2 = true) ∨ safe a.2.1 = true := by
  unfold raceFree at h
  have h1 := List.all_eq_true.mp h a ha
  have h2 := List.all_eq_true.mp h1 b hb
  simp only [conflict, Bool.not_eq_true', Bool.and_eq_false_imp, Bool.and_eq_true, bne_iff_ne, ne_eq,
    beq_iff_eq, Bool.or_eq_true, Bool.not_eq_true', Bool.not_eq_false'] at h2
  cases hs : safe a.2.1
  · cases hga : a.2.2.2 <;> cases hgb : b.2.2.2 <;> cases hwa : a.2.2.1 <;> cases hwb : b.2.2.1 <;>
      simp_all
  · exact Or.inr (Or.inr rfl)

/-- adding a mutation by a second goroutine without a lock is rejected (the shape of the
per-query metrics race): the check is not vacuous -/
theorem C12_unlocked_shared_mutation_rejected (safe : Nat → Bool) (comp : Nat) (hs : safe comp = false) :
    raceFree safe [(0, comp, true, false), (1, comp, true, false)] = false := by
  simp [raceFree, conflict, hs]

/-- … and accepted once both sides hold a lock -/
theorem C12_locked_shared_mutation_accepted (safe : Nat → Bool) (comp : Nat) :
    raceFree safe [(0, comp, true, true), (1, comp, true, true)] = true := by
  simp [raceFree, conflict]


/-- **What the foreign-goroutine check establishes**: a field of the client that `Close` / `IsClosed` touch and the
call (`Do` / `Ping` with everything they run) touches as well is either only read by both, or touched under a lock
by both -/
theorem C12_foreign_free_meaning (callers foreign : List FieldOp) (h : foreignFree callers foreign = true)
    (a b : FieldOp) (ha : a ∈ callers) (hb : b ∈ foreign) (hf : a.2.1 = b.2.1) :
    (a.2.2.1 = false ∧ b.2.2.1 = false) ∨ (a.2.2.2 = true ∧ b.2.2.2 = true) := by
  unfold foreignFree at h
  have h1 := List.all_eq_true.mp h a ha
  have h2 := List.all_eq_true.mp h1 b hb
  simp only [fieldConflict, hf, beq_self_eq_true, Bool.true_and] at h2
  cases hga : a.2.2.2 <;> cases hgb : b.2.2.2 <;> cases hwa : a.2.2.1 <;> cases hwb : b.2.2.1 <;> simp_all

/-- the check is not vacuous: the call re-assigns its logger field without a lock (it may: the call is single-caller),
so a `Close` that read that field would be rejected -/
theorem C12_foreign_read_of_reassigned_field_rejected :
    foreignFree [(0, "lg", true, false)] [(0, "lg", false, false)] = false := by decide
