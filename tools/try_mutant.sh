#!/bin/bash
# usage: try_mutant.sh <prop> <patch.diff> [extra check args]   — applies the patch to /repo (3-way when the tree has
# moved since the patch was made), runs the check, reverts
prop=$1; patch=$(readlink -f "$2"); shift 2
cd /repo || exit 2
if git apply --check "$patch" 2>/dev/null; then
  git apply "$patch"
elif git apply --3way "$patch" >/dev/null 2>&1 || { git checkout -q HEAD -- . ; git reset -q; false; }; then
  git reset -q
  if git diff --quiet; then echo "PATCH-DOES-NOT-APPLY $patch"; exit 3; fi
  if grep -rq '^<<<<<<<' $(git diff --name-only); then git checkout -- .; echo "PATCH-CONFLICTS $patch"; exit 3; fi
else
  echo "PATCH-DOES-NOT-APPLY $patch"; exit 3
fi
cp /verif/evidence/$prop.json /tmp/try_mutant.evidence.$prop 2>/dev/null
/verif/check "$prop" "$@" 2>/tmp/try_mutant.err
rc=$?
# the evidence file describes the unchanged tree: put it back
cp /tmp/try_mutant.evidence.$prop /verif/evidence/$prop.json 2>/dev/null
git checkout -q HEAD -- .
git reset -q
echo "exit=$rc"
exit $rc
