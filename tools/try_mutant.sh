#!/bin/bash
# usage: try_mutant.sh <prop> <patch.diff> [extra check args]   — applies the patch to /repo, runs the check, reverts
prop=$1; patch=$2; shift 2
cd /repo || exit 2
if ! git apply --check "$patch" 2>/dev/null; then echo "PATCH-DOES-NOT-APPLY $patch"; exit 3; fi
git apply "$patch"
/verif/check "$prop" "$@" 2>/tmp/try_mutant.err
rc=$?
git checkout -- . 
echo "exit=$rc"
exit $rc
