#!/bin/bash
# usage: tools/seed_sweep.sh <tier> <seed>...   — every property at every given seed on the unchanged tree, 6 at a time;
# prints one line per (property, seed) and every VIOLATION / KNOWN-FINDING line.  Meant for `vp run -- tools/seed_sweep.sh quick 2 3 4`.
tier=$1; shift
./check setup > setup.log 2>&1 || { echo "setup failed"; tail -5 setup.log; exit 1; }
for s in "$@"; do for i in $(seq -w 1 20); do echo "C$i $s"; done; done | \
  xargs -P 6 -L 1 bash -c 'out=$(./check $0 --tier '"$tier"' --seed $1 2>&1); rc=$?; echo "$0 seed=$1 exit=$rc $(echo "$out" | grep -E "^VIOLATION" | tr "\n" " ")"'
