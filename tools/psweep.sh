#!/bin/bash
# parallel mutant sweep: N workers, each with a private copy of /verif (working tree, rsync) and of /repo (git worktree
# of HEAD) under $ROOT, so /repo itself is never touched.  usage: tools/psweep.sh [N] [pattern]  (SWEEP_ARGS="--seed 2")
# prints one line per mutant (same format as sweep_mutants.sh) into $ROOT/result.txt and on stdout at the end.
N=${1:-4}; PAT=${2:-'C*_m*'}
ROOT=${PSWEEP_ROOT:-/tmp/psweep}
rm -rf $ROOT; mkdir -p $ROOT
git -C /repo worktree prune
if [ -n "$PSWEEP_LIST" ]; then for m in $PSWEEP_LIST; do echo /verif/seeded/$m; done > $ROOT/all.txt; else ls -d /verif/seeded/$PAT | sort > $ROOT/all.txt; fi
for k in $(seq 1 $N); do
  ( w=$ROOT/w$k
    git -C /repo worktree add -q --detach $w/repo HEAD
    rsync -a --exclude .bin --exclude replays --exclude '.lock-*' /verif/ $w/verif/
    sed -i "s#=> /repo#=> $w/repo#" $w/verif/harness/go.mod
    cd $w/verif && VERIF_REPO=$w/repo ./check setup > $w/setup.log 2>&1
    awk -v n=$N -v k=$k 'NR % n == k % n' $ROOT/all.txt | while read d; do
      m=$(basename $d); p=${m%_*}
      cd $w/repo
      if ! git apply --check $d/patch.diff 2>/dev/null; then
        if git apply --3way $d/patch.diff >/dev/null 2>&1; then git reset -q; else git checkout -q HEAD -- .; git reset -q; echo "$m PATCH-DOES-NOT-APPLY" >> $ROOT/result.txt; continue; fi
      else git apply $d/patch.diff; fi
      out=$(cd $w/verif && VERIF_REPO=$w/repo ./check $p $SWEEP_ARGS 2>&1; echo "exit=$?")
      git checkout -q HEAD -- .; git reset -q
      rc=$(echo "$out" | grep -o 'exit=[0-9]*' | tail -1)
      keys=$(echo "$out" | grep VIOLATION | sed 's/.*replay=[^ ]*\/replays\///; s/-[0-9]*\.json//' | sort -u | tr '\n' ' ')
      disch=$(echo "$out" | grep -o 'obligations=[0-9]* discharged=[0-9]*' | tail -1)
      echo "$m $rc $disch $keys" >> $ROOT/result.txt
    done
    cd /; git -C /repo worktree remove --force $w/repo; rm -rf $w
  ) &
done
wait
git -C /repo worktree prune
sort $ROOT/result.txt
