#!/usr/bin/env python3
"""Regenerates MANIFEST.json from props.json (claimed checks) and properties.jsonl."""
import json, os
V = os.path.dirname(os.path.dirname(os.path.abspath(__file__)))
props = json.load(open(os.path.join(V, "props.json")))
allp = [json.loads(l)["id"] for l in open(os.path.join(V, "properties.jsonl"))]
baseline = json.load(open("/root/.vp/BASELINE.json"))["cmd"]
checks = []
for pid in allp:
    if pid not in props or props[pid].get("unclaimed"):
        continue
    c = props[pid]
    checks.append({
        "property_id": pid,
        "quick_cmd": "./check %s" % pid,
        "thorough_cmd": "./check %s --tier thorough" % pid,
        "evidence_file": "evidence/%s.json" % pid,
        "replay_cmd_template": "./check %s --replay {path}" % pid,
        "engine": "lean+harness",
        "level_claimed": {"category": c.get("level", "proof"), "text": c["level_text"], "design_ref": "DESIGN.md §4 " + pid},
        "level_note": c["level_note"],
        "technique": c.get("technique", "Lean 4 theorems over an executable model + differential correspondence with the Go code"),
    })
na = [{"property_id": pid, "reason": (props.get(pid, {}).get("unclaimed") or "check not built yet in this session; no claim is made (see DESIGN.md §4 for the planned theorems)")}
      for pid in allp if pid not in props or props[pid].get("unclaimed")]
m = {
    "version": 1,
    "setup_cmd": "./check setup",
    "hooks": {"guard": "verif", "enable": "go build -tags verif (the harness module replaces github.com/ClickHouse/ch-go with /repo)",
              "baseline_off_cmd": baseline, "source_commits": json.load(open(os.path.join(V, "hooks.json")))["source_commits"], "add_only": True},
    "engines": [
        {"name": "lean", "path": "lean/", "serves_properties": [c["property_id"] for c in checks], "kind_free_text": "Lean 4.33 project: Model/ (core-only executable model), Proofs/, Props/Cxx.lean (property theorems), Tie/ (obligations over facts extracted from /repo), Driver (compiled model, line protocol)"},
        {"name": "extract", "path": "extract/", "serves_properties": [c["property_id"] for c in checks], "kind_free_text": "go/ast + go/types fact extractor regenerating lean/Generated/Facts.lean from /repo on every run; fails closed"},
        {"name": "harness", "path": "harness/", "serves_properties": [c["property_id"] for c in checks], "kind_free_text": "Go module (replace => /repo, -tags verif): generators, direct property oracles on the real code, differential comparison with the Lean driver"},
    ],
    "checks": checks,
    "not_applicable": na,
    "notes": "Every check regenerates facts from /repo, rebuilds Lean obligations and the harness, and audits #print axioms (propext, Classical.choice, Quot.sound only). KNOWN_FINDINGS.jsonl lists fixed/known defects.",
}
json.dump(m, open(os.path.join(V, "MANIFEST.json"), "w"), indent=1)
print("checks:", [c["property_id"] for c in checks], "not_applicable:", len(na))
