#!/bin/bash
# runs every seeded mutant against the quick check of its property; prints one line per mutant
cd /verif
for d in seeded/C*_m*; do
  m=$(basename $d); p=${m%_*}
  out=$(tools/try_mutant.sh $p $d/patch.diff $SWEEP_ARGS 2>&1)
  rc=$(echo "$out" | grep -o 'exit=[0-9]*' | tail -1)
  keys=$(echo "$out" | grep VIOLATION | sed 's/.*replay=\/verif\/replays\///; s/-[0-9]*\.json//' | tr '\n' ' ')
  disch=$(echo "$out" | grep -o 'obligations=[0-9]* discharged=[0-9]*' | tail -1)
  echo "$m $rc $disch $keys"
done
