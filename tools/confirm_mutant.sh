#!/bin/bash
# usage: confirm_mutant.sh <Cxx> <mk>  — confirms a sub-agent mutation in a scratch worktree and stores it under /verif/seeded/
# checks: demo passes on the pinned tree; with the patch the demo fails and the whole existing suite passes.
set -u
P=$1; K=$2
SRC=${MUT_SRC:-/tmp/mutout}/$P
WT=/tmp/confirm_${P}_${K}
export GOFLAGS=-mod=mod GOPROXY=off GOSUMDB=off GOTOOLCHAIN=local
BASE=${MUT_BASE:-f23820b}
meta=$SRC/${P}_${K}_meta.json
pkg=$(python3 -c "import json,sys; print(json.load(open('$meta')).get('demo_pkg_dir','.'))")
pkg=${pkg#./}; pkg=${pkg%/}; [ -z "$pkg" ] && pkg=.
git -C /repo worktree add --detach $WT $BASE >/dev/null 2>&1 || { echo "$P $K worktree-failed"; exit 2; }
cd $WT
cp $SRC/${P}_${K}_demo_test.go $pkg/verif_demo_${P}_${K}_test.go
run="TestVerifDemo${P}${K}"
go test -vet=off -count=1 -run "$run" ./$pkg/ >/tmp/confirm_${P}_${K}.base.log 2>&1; base=$?
git apply $SRC/${P}_${K}.diff || { echo "$P $K patch-does-not-apply"; cd /; git -C /repo worktree remove --force $WT; exit 3; }
go test -vet=off -count=1 -run "$run" ./$pkg/ >/tmp/confirm_${P}_${K}.mut.log 2>&1; mut=$?
rm $pkg/verif_demo_${P}_${K}_test.go
go build ./... >/tmp/confirm_${P}_${K}.suite.log 2>&1 && go test -vet=off -count=1 ./... >>/tmp/confirm_${P}_${K}.suite.log 2>&1; suite=$?
cd /
git -C /repo worktree remove --force $WT
ok=no
if [ $base -eq 0 ] && [ $mut -ne 0 ] && [ $suite -eq 0 ]; then ok=yes; fi
echo "$P $K demo_on_base=$base demo_with_patch=$mut suite_with_patch=$suite confirmed=$ok"
if [ $ok = yes ]; then
  D=/verif/seeded/${P}_${K}
  mkdir -p $D
  cp $SRC/${P}_${K}.diff $D/patch.diff
  cp $SRC/${P}_${K}_demo_test.go $D/demo_test.go
  python3 - <<PY
import json
m=json.load(open('$meta'))
out={"property":"$P","id":"${P}_${K}","summary":m.get("summary"),"files":m.get("files"),
 "needs_to_manifest":m.get("needs_to_manifest"),"demo_pkg_dir":"$pkg","demo_run":"go test -vet=off -count=1 -run $run ./$pkg/",
 "base_commit":"$BASE",
 "confirmed_by":"tools/confirm_mutant.sh in a scratch worktree: demo passes on the pinned tree (exit $base), fails with the patch (exit $mut), whole suite passes with the patch and without the demo (exit $suite)"}
json.dump(out,open('$D/meta.json','w'),indent=1)
PY
fi
